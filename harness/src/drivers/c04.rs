//! C04 — typed getters select the first matching tag and decode every
//! specified field.

use super::Driver;
use crate::gen;
use crate::region::Region;
use crate::spec::*;
use crate::util::*;
use multiboot2::*;

pub struct C04;

struct Cmp<'a> {
    kind: &'static str,
    bad: Vec<String>,
    n: u64,
    _p: core::marker::PhantomData<&'a ()>,
}

impl Cmp<'_> {
    fn eq<T: PartialEq + core::fmt::Debug>(&mut self, field: &str, got: T, exp: T) {
        self.n += 1;
        if got != exp {
            self.bad.push(format!("{}.{}: got {:?}, stored {:?}", self.kind, field, got, exp));
        }
    }
}

fn first_of(tags: &[TagAt], typ: u32) -> Option<TagAt> {
    tags.iter().find(|t| t.word0 == typ).copied()
}

fn addr_of<T: ?Sized>(t: &T) -> usize {
    t as *const T as *const u8 as usize
}

/// decode-checks one tag kind; `b` = the tag's bytes (size bytes)
fn check_kind(bi: &BootInformation, typ: u32, first: Option<TagAt>, mem: &[u8], base: usize, has_efibs: bool) -> (Vec<String>, u64) {
    let name = mbi_kind(typ).map(|k| k.2).unwrap_or("custom");
    let mut c = Cmp { kind: name, bad: vec![], n: 0, _p: core::marker::PhantomData };
    let b: &[u8] = first.map(|t| &mem[t.off..t.off + t.size as usize]).unwrap_or(&[]);
    let exp_addr = first.map(|t| base + t.off);
    macro_rules! sel {
        ($opt:expr) => {{
            let o = $opt;
            c.eq("getter-selects-first", o.map(|t| addr_of(t)), exp_addr);
            match o {
                // a wrongly selected tag is not decoded against another tag's bytes
                Some(t) if Some(addr_of(t)) == exp_addr => t,
                _ => return (c.bad, c.n),
            }
        }};
    }
    match typ {
        T_CMDLINE => {
            let t = sel!(bi.command_line_tag());
            let text = &b[8..b.iter().skip(8).position(|&x| x == 0).unwrap() + 8];
            c.eq("cmdline", t.cmdline().map(|s| s.as_bytes().to_vec()).ok(), Some(text.to_vec()));
        }
        T_LOADER => {
            let t = sel!(bi.boot_loader_name_tag());
            let text = &b[8..b.iter().skip(8).position(|&x| x == 0).unwrap() + 8];
            c.eq("name", t.name().map(|s| s.as_bytes().to_vec()).ok(), Some(text.to_vec()));
            c.eq("typ", t.typ(), TagType::BootLoaderName);
            c.eq("size", t.size(), b.len());
        }
        T_MODULE => {
            let mut it = bi.module_tags();
            let t = sel!(it.next());
            c.eq("start_address", t.start_address(), le32(b, 8));
            c.eq("end_address", t.end_address(), le32(b, 12));
            c.eq("module_size", t.module_size(), le32(b, 12) - le32(b, 8));
            let text = &b[16..b.iter().skip(16).position(|&x| x == 0).unwrap() + 16];
            c.eq("cmdline", t.cmdline().map(|s| s.as_bytes().to_vec()).ok(), Some(text.to_vec()));
        }
        T_MEMINFO => {
            let t = sel!(bi.basic_memory_info_tag());
            c.eq("memory_lower", t.memory_lower(), le32(b, 8));
            c.eq("memory_upper", t.memory_upper(), le32(b, 12));
        }
        T_BOOTDEV => {
            let t = sel!(bi.bootdev_tag());
            c.eq("biosdev", t.biosdev(), le32(b, 8));
            c.eq("slice", t.slice(), le32(b, 12));
            c.eq("part", t.part(), le32(b, 16));
        }
        T_MMAP => {
            let t = sel!(bi.memory_map_tag());
            c.eq("entry_size", t.entry_size(), le32(b, 8));
            c.eq("entry_version", t.entry_version(), le32(b, 12));
            let areas = t.memory_areas();
            c.eq("areas.len", areas.len(), (b.len() - 16) / 24);
            c.eq("areas.addr", addr_of(areas), exp_addr.unwrap() + 16);
            for (i, a) in areas.iter().enumerate().take((b.len() - 16) / 24) {
                let o = 16 + 24 * i;
                c.eq("area.start_address", a.start_address(), le64(b, o));
                c.eq("area.size", a.size(), le64(b, o + 8));
                c.eq("area.typ", u32::from(a.typ()), le32(b, o + 16));
                if let Some(e) = le64(b, o).checked_add(le64(b, o + 8)) {
                    c.eq("area.end_address", a.end_address(), e);
                }
            }
        }
        T_VBE => {
            let t = sel!(bi.vbe_info_tag());
            c.eq("mode", t.mode(), le16(b, 8));
            c.eq("interface_segment", t.interface_segment(), le16(b, 10));
            c.eq("interface_offset", t.interface_offset(), le16(b, 12));
            c.eq("interface_length", t.interface_length(), le16(b, 14));
            let ci = t.control_info();
            let cb = &b[16..528];
            c.eq("control.signature", ci.signature.to_vec(), cb[0..4].to_vec());
            c.eq("control.version", { ci.version }, le16(cb, 4));
            c.eq("control.oem_string_ptr", { ci.oem_string_ptr }, le32(cb, 6));
            c.eq("control.capabilities", { ci.capabilities }.bits(), le32(cb, 10));
            c.eq("control.mode_list_ptr", { ci.mode_list_ptr }, le32(cb, 14));
            c.eq("control.total_memory", { ci.total_memory }, le16(cb, 18));
            c.eq("control.oem_software_revision", { ci.oem_software_revision }, le16(cb, 20));
            c.eq("control.oem_vendor_name_ptr", { ci.oem_vendor_name_ptr }, le32(cb, 22));
            c.eq("control.oem_product_name_ptr", { ci.oem_product_name_ptr }, le32(cb, 26));
            c.eq("control.oem_product_revision_ptr", { ci.oem_product_revision_ptr }, le32(cb, 30));
            // the whole 512-byte block is a verbatim copy
            let raw = unsafe { core::slice::from_raw_parts(&ci as *const VBEControlInfo as *const u8, 512) };
            c.eq("control.block", raw.to_vec(), cb.to_vec());
            let mi = t.mode_info();
            let mb = &b[528..784];
            c.eq("mode.mode_attributes", { mi.mode_attributes }.bits(), le16(mb, 0));
            c.eq("mode.window_a_attributes", { mi.window_a_attributes }.bits(), mb[2]);
            c.eq("mode.window_b_attributes", { mi.window_b_attributes }.bits(), mb[3]);
            c.eq("mode.window_granularity", { mi.window_granularity }, le16(mb, 4));
            c.eq("mode.window_size", { mi.window_size }, le16(mb, 6));
            c.eq("mode.window_a_segment", { mi.window_a_segment }, le16(mb, 8));
            c.eq("mode.window_b_segment", { mi.window_b_segment }, le16(mb, 10));
            c.eq("mode.window_function_ptr", { mi.window_function_ptr }, le32(mb, 12));
            c.eq("mode.pitch", { mi.pitch }, le16(mb, 16));
            c.eq("mode.resolution", { mi.resolution }, (le16(mb, 18), le16(mb, 20)));
            c.eq("mode.character_size", { mi.character_size }, (mb[22], mb[23]));
            c.eq("mode.number_of_planes", { mi.number_of_planes }, mb[24]);
            c.eq("mode.bpp", { mi.bpp }, mb[25]);
            c.eq("mode.number_of_banks", { mi.number_of_banks }, mb[26]);
            c.eq("mode.memory_model", { mi.memory_model } as u8, mb[27]);
            c.eq("mode.bank_size", { mi.bank_size }, mb[28]);
            c.eq("mode.number_of_image_pages", { mi.number_of_image_pages }, mb[29]);
            c.eq("mode.red_field", ({ mi.red_field }.size, { mi.red_field }.position), (mb[31], mb[32]));
            c.eq("mode.green_field", ({ mi.green_field }.size, { mi.green_field }.position), (mb[33], mb[34]));
            c.eq("mode.blue_field", ({ mi.blue_field }.size, { mi.blue_field }.position), (mb[35], mb[36]));
            c.eq("mode.reserved_field", ({ mi.reserved_field }.size, { mi.reserved_field }.position), (mb[37], mb[38]));
            c.eq("mode.direct_color_attributes", { mi.direct_color_attributes }.bits(), mb[39]);
            c.eq("mode.framebuffer_base_ptr", { mi.framebuffer_base_ptr }, le32(mb, 40));
            c.eq("mode.offscreen_memory_offset", { mi.offscreen_memory_offset }, le32(mb, 44));
            c.eq("mode.offscreen_memory_size", { mi.offscreen_memory_size }, le16(mb, 48));
            let raw = unsafe { core::slice::from_raw_parts(&mi as *const VBEModeInfo as *const u8, 256) };
            c.eq("mode.block", raw.to_vec(), mb.to_vec());
        }
        T_FB => {
            let o = bi.framebuffer_tag();
            c.eq("getter-present", o.is_some(), first.is_some());
            let r = match o {
                Some(r) => r,
                None => return (c.bad, c.n),
            };
            match r {
                Err(e) => c.bad.push(format!("framebuffer: known type byte {} reported as error {}", b[29], e)),
                Ok(t) => {
                    c.eq("getter-selects-first", Some(addr_of(t)), exp_addr);
                    c.eq("address", t.address(), le64(b, 8));
                    c.eq("pitch", t.pitch(), le32(b, 16));
                    c.eq("width", t.width(), le32(b, 20));
                    c.eq("height", t.height(), le32(b, 24));
                    c.eq("bpp", t.bpp(), b[28]);
                    match (t.buffer_type(), b[29]) {
                        (Ok(FramebufferType::Indexed { palette }), 0) => {
                            let n = le16(b, 32) as usize;
                            c.eq("palette.len", palette.len(), n);
                            c.eq("palette.addr", addr_of(palette), exp_addr.unwrap() + 34);
                            for (i, col) in palette.iter().enumerate().take(n) {
                                c.eq("palette.color", (col.red, col.green, col.blue), (b[34 + 3 * i], b[35 + 3 * i], b[36 + 3 * i]));
                            }
                        }
                        (Ok(FramebufferType::RGB { red, green, blue }), 1) => {
                            c.eq("rgb.red", (red.position, red.size), (b[32], b[33]));
                            c.eq("rgb.green", (green.position, green.size), (b[34], b[35]));
                            c.eq("rgb.blue", (blue.position, blue.size), (b[36], b[37]));
                        }
                        (Ok(FramebufferType::Text), 2) => c.n += 1,
                        (o, ty) => c.bad.push(format!("framebuffer.buffer_type: type byte {} decoded as {:?}", ty, o)),
                    }
                }
            }
        }
        T_ELF => {
            let t = sel!(bi.elf_sections_tag());
            c.eq("number_of_sections", t.number_of_sections(), le32(b, 8));
            c.eq("entry_size", t.entry_size(), le32(b, 12));
            c.eq("shndx", t.shndx(), le32(b, 16));
            // entries (C19 goes deeper)
            let es = le32(b, 12) as usize;
            let mut exp = vec![];
            for i in 0..le32(b, 8) as usize {
                let e = elf_decode(&b[20 + i * es..20 + (i + 1) * es], es);
                if elf_class(e.typ) != ElfClass::Unused {
                    exp.push(e);
                }
            }
            let got: Vec<_> = t.sections().collect();
            c.eq("sections.count", got.len(), exp.len());
            for (s, e) in got.iter().zip(exp.iter()) {
                c.eq("section.type_raw", s.section_type_raw(), e.typ);
                c.eq("section.start_address", s.start_address(), e.addr);
                c.eq("section.size", s.size(), e.size);
                c.eq("section.addralign", s.addralign(), e.addralign);
                c.eq("section.flags", s.flags().bits(), e.flags & 7);
                let nb = gen::names();
                if let Some((_, nbytes)) = nb.names.iter().find(|x| x.0 == e.name_index) {
                    c.eq("section.name", s.name().ok().map(|x| x.as_bytes().to_vec()), std::str::from_utf8(nbytes).ok().map(|x| x.as_bytes().to_vec()));
                }
            }
        }
        T_APM => {
            let t = sel!(bi.apm_tag());
            c.eq("version", t.version(), le16(b, 8));
            c.eq("cseg", t.cseg(), le16(b, 10));
            c.eq("offset", t.offset(), le32(b, 12));
            c.eq("cset_16", t.cset_16(), le16(b, 16));
            c.eq("dseg", t.dseg(), le16(b, 18));
            c.eq("flags", t.flags(), le16(b, 20));
            c.eq("cseg_len", t.cseg_len(), le16(b, 22));
            c.eq("cseg_16_len", t.cseg_16_len(), le16(b, 24));
            c.eq("dseg_len", t.dseg_len(), le16(b, 26));
        }
        T_EFI32 => {
            let t = sel!(bi.efi_sdt32_tag());
            c.eq("sdt_address", t.sdt_address(), le32(b, 8) as usize);
        }
        T_EFI64 => {
            let t = sel!(bi.efi_sdt64_tag());
            c.eq("sdt_address", t.sdt_address(), le64(b, 8) as usize);
        }
        T_SMBIOS => {
            let t = sel!(bi.smbios_tag());
            c.eq("major", t.major(), b[8]);
            c.eq("minor", t.minor(), b[9]);
            c.eq("tables", t.tables().to_vec(), b[16..].to_vec());
            c.eq("tables.addr", addr_of(t.tables()), exp_addr.unwrap() + 16);
        }
        T_ACPI1 => {
            let t = sel!(bi.rsdp_v1_tag());
            c.eq("signature", t.signature().ok().map(|s| s.as_bytes().to_vec()), std::str::from_utf8(&b[8..16]).ok().map(|s| s.as_bytes().to_vec()));
            c.eq("checksum_is_valid", t.checksum_is_valid(), rsdp_sum_ok(&b[8..28]));
            c.eq("oem_id", t.oem_id().ok().map(|s| s.as_bytes().to_vec()), std::str::from_utf8(&b[17..23]).ok().map(|s| s.as_bytes().to_vec()));
            c.eq("revision", t.revision(), b[23]);
            c.eq("rsdt_address", t.rsdt_address(), le32(b, 24) as usize);
        }
        T_ACPI2 => {
            let t = sel!(bi.rsdp_v2_tag());
            let len = le32(b, 28) as usize;
            c.eq("signature", t.signature().ok().map(|s| s.as_bytes().to_vec()), std::str::from_utf8(&b[8..16]).ok().map(|s| s.as_bytes().to_vec()));
            c.eq("checksum_is_valid", t.checksum_is_valid(), rsdp_sum_ok(&b[8..8 + len]));
            c.eq("oem_id", t.oem_id().ok().map(|s| s.as_bytes().to_vec()), std::str::from_utf8(&b[17..23]).ok().map(|s| s.as_bytes().to_vec()));
            c.eq("revision", t.revision(), b[23]);
            c.eq("xsdt_address", t.xsdt_address(), le64(b, 32) as usize);
            c.eq("ext_checksum", t.ext_checksum(), b[40]);
        }
        T_NET => {
            let _t = sel!(bi.network_tag());
        }
        T_EFIMMAP => {
            let o = bi.efi_memory_map_tag();
            if has_efibs {
                c.eq("withheld-while-boot-services-not-exited", o.map(|t| addr_of(t)), None);
                return (c.bad, c.n);
            }
            let t = sel!(o);
            let d = le32(b, 8) as usize;
            let n = (b.len() - 16) / d;
            let it = t.memory_areas();
            c.eq("areas.len", it.len(), n);
            for (i, a) in it.enumerate().take(n) {
                let e = efi_decode(&b[16 + i * d..16 + i * d + 40]);
                c.eq("desc", (a.ty.0, a.phys_start, a.virt_start, a.page_count, a.att.bits()), (e.ty, e.phys_start, e.virt_start, e.page_count, e.att));
            }
        }
        T_EFIBS => {
            let _t = sel!(bi.efi_bs_not_exited_tag());
        }
        T_EFI32IH => {
            let t = sel!(bi.efi_ih32_tag());
            c.eq("image_handle", t.image_handle(), le32(b, 8) as usize);
        }
        T_EFI64IH => {
            let t = sel!(bi.efi_ih64_tag());
            c.eq("image_handle", t.image_handle(), le64(b, 8) as usize);
        }
        T_LOADBASE => {
            let t = sel!(bi.load_base_addr_tag());
            c.eq("load_base_addr", t.load_base_addr(), le32(b, 8));
        }
        _ => {}
    }
    (c.bad, c.n)
}

impl C04 {
    fn region(&self, ctx: &mut Ctx, bytes: Vec<u8>, tags: Vec<TagAt>, label: &str) {
        let reg = Region::new(ctx.placement, &bytes);
        ctx.eval();
        let bi = match catch(|| unsafe { BootInformation::load(reg.ptr().cast::<BootInformationHeader>()) }) {
            Out::Val(Ok(b)) => b,
            o => {
                ctx.violation("conformant-region-does-not-load", J::obj(vec![("region", J::S(hex_trunc(&bytes, 200))), ("panic", J::B(o.is_panic()))]));
                return;
            }
        };
        let has_efibs = tags.iter().any(|t| t.word0 == T_EFIBS);
        let mut kinds_present = 0u64;
        let mut fields = 0u64;
        for typ in 1..=21u32 {
            let first = first_of(&tags, typ);
            if first.is_some() {
                kinds_present |= 1 << typ;
            }
            let r = catch(|| check_kind(&bi, typ, first, &bytes, reg.addr(), has_efibs));
            let name = mbi_kind(typ).unwrap().2;
            let witness = |what: String| {
                J::obj(vec![
                    ("what", J::s(what)),
                    ("kind", J::s(name)),
                    ("workload", J::s(label)),
                    ("walk", J::s(format!("{:?}", tags.iter().map(|t| (t.off, t.word0, t.size)).collect::<Vec<_>>()))),
                    ("first_tag_bytes", first.map(|t| J::S(hex_trunc(&bytes[t.off..t.off + t.size as usize], 120))).unwrap_or(J::Null)),
                ])
            };
            match r {
                Out::Panic(site) => ctx.violation(&format!("panic-on-conformant-tag:{}@{}", name, site), witness("panic".into())),
                Out::Val((bad, n)) => {
                    fields += n;
                    ctx.count_n(&format!("fields:{}", name), n);
                    if let Some(first_bad) = bad.first() {
                        // signature: kind.field (without values)
                        let sig = first_bad.split(':').next().unwrap_or("?").to_string();
                        ctx.violation(&format!("decode:{}", sig), witness(bad.join("; ")));
                    }
                }
            }
        }
        ctx.count_n("fields-compared", fields);
        if fields > 0 {
            ctx.nontrivial(hash_bytes(&bytes));
        }
        if ctx.want_sample() && tags.len() >= 4 {
            ctx.sample(J::obj(vec![
                ("workload", J::s(label)),
                ("region_len", J::u(bytes.len() as u64)),
                ("tags(off,type,size)", J::s(format!("{:?}", tags.iter().map(|t| (t.off, t.word0, t.size)).collect::<Vec<_>>()))),
                ("fields_compared", J::u(fields)),
            ]));
        }
        let _ = kinds_present;
    }

    /// all 256 framebuffer type bytes x colour-info shape
    fn fb_byte(&self, ctx: &mut Ctx, b: u8) {
        for shape in 0..3u8 {
            let mut body = gen::fb_body(&mut ctx.rng, shape, 3);
            body[21] = b;
            let mut m = MbiBuf::new();
            // a second, well-formed framebuffer tag later in the region must not be chosen
            m.push(T_FB, &body);
            let later = gen::fb_body(&mut ctx.rng, 2, 0);
            m.push(T_FB, &later);
            let bytes = m.finish();
            let reg = Region::new(ctx.placement, &bytes);
            ctx.eval();
            let r = catch(|| {
                let bi = unsafe { BootInformation::load(reg.ptr().cast::<BootInformationHeader>()) }.expect("loads");
                match bi.framebuffer_tag() {
                    None => "None".to_string(),
                    Some(Ok(t)) => format!("Ok@{}", reg.off_of(addr_of(t))),
                    Some(Err(e)) => format!("Err:{}", e),
                }
            });
            // a known type whose colour info is too short for it may panic
            let fits = match b {
                0 => shape == 0,
                1 => shape <= 1,
                _ => true,
            };
            let exp = if b <= 2 { "Ok@8".to_string() } else { format!("Err:Unknown framebuffer type {}", b) };
            let ok = match &r {
                Out::Val(s) => *s == exp,
                Out::Panic(_) => b <= 1 && !fits,
            };
            ctx.count(if b <= 2 { "fb-type:known" } else { "fb-type:unknown" });
            if !ok {
                ctx.violation(
                    if b > 2 { "fb-type:unknown-byte-not-reported" } else { "fb-type:known-byte-misreported" },
                    J::obj(vec![("type_byte", J::u(b as u64)), ("colour_info_shape", J::u(shape as u64)), ("expected", J::s(exp)), ("got", J::s(format!("{:?}", r)))]),
                );
            }
            ctx.nontrivial(mix2(0xfb04, (b as u64) << 2 | shape as u64));
        }
    }
}

impl Driver for C04 {
    fn ncases(&self, ctx: &Ctx) -> u64 {
        256 + 44
            + match ctx.tier {
                Tier::Quick => 60_000,
                Tier::Thorough => 2_000_000,
            }
    }
    fn run_case(&mut self, ctx: &mut Ctx, idx: u64) {
        if idx < 256 {
            return self.fb_byte(ctx, idx as u8);
        }
        if idx < 300 {
            // every kind alone, and twice (second copy must be ignored)
            let k = idx - 256;
            let typ = 1 + (k % 22) as u32;
            if typ > 21 {
                return;
            }
            let mut m = MbiBuf::new();
            let b1 = gen::body(&mut ctx.rng, typ);
            m.push(typ, &b1);
            if k >= 22 {
                let b2 = gen::body(&mut ctx.rng, typ);
                m.push(typ, &b2);
            }
            let (bytes, tags) = m.finish_keep();
            return self.region(ctx, bytes, tags, "single-kind");
        }
        // EFI map / boot-services tag in either order: forced often
        let (bytes, tags) = if ctx.rng.chance(1, 8) {
            let mut m = MbiBuf::new();
            let first_bs = ctx.rng.chance(1, 2);
            let e = gen::body(&mut ctx.rng, T_EFIMMAP);
            if first_bs {
                m.push(T_EFIBS, &[]);
            }
            m.push(T_EFIMMAP, &e);
            if !first_bs && ctx.rng.chance(2, 3) {
                m.push(T_EFIBS, &[]);
            }
            let extra = ctx.rng.below(4);
            for _ in 0..extra {
                let t = 1 + ctx.rng.below(21) as u32;
                let b = gen::body(&mut ctx.rng, t);
                m.push(t, &b);
            }
            m.finish_keep()
        } else {
            let max = if cfg!(miri) { 6 } else { 14 };
            gen::conformant_mbi(&mut ctx.rng, max)
        };
        self.region(ctx, bytes, tags, "random-conformant");
    }
}
