//! C15 — casting to a (user-defined) tag type never yields a view larger than
//! the tag.

use super::Driver;
use crate::region::Region;
use crate::spec::{MbiBuf, MBI_KINDS};
use crate::util::*;
use multiboot2::*;
use multiboot2_common::{DynSizedStructure, MaybeDynSized, Tag};

pub struct C15;

// ---- user-defined family -------------------------------------------------

macro_rules! sized_tag {
    ($name:ident, $words:expr, $id:expr) => {
        #[repr(C, align(8))]
        pub struct $name {
            header: TagHeader,
            w: [u32; $words],
        }
        impl MaybeDynSized for $name {
            type Header = TagHeader;
            const BASE_SIZE: usize = 8 + 4 * $words;
            fn dst_len(_: &TagHeader) {}
        }
        impl Tag for $name {
            type IDType = TagType;
            const ID: TagType = TagType::Custom($id);
        }
    };
}
sized_tag!(S0, 0, 0x1000);
sized_tag!(S1, 1, 0x1001);
sized_tag!(S2, 2, 0x1002);
sized_tag!(S3, 3, 0x1003);
sized_tag!(S4, 4, 0x1004);
sized_tag!(S5, 5, 0x1005);
sized_tag!(S6, 6, 0x1006);

/// DST tags: fixed part 8 + 4*W bytes, elements of E bytes (byte arrays, so
/// the tail starts exactly at the fixed offset); `asserting` like the built-ins
/// or `flooring` – both truthful.
macro_rules! dst_tag {
    ($name:ident, $words:expr, $e:expr, $id:expr, $flooring:expr) => {
        #[derive(ptr_meta::Pointee)]
        #[repr(C, align(8))]
        pub struct $name {
            header: TagHeader,
            w: [u32; $words],
            tail: [[u8; $e]],
        }
        impl MaybeDynSized for $name {
            type Header = TagHeader;
            const BASE_SIZE: usize = 8 + 4 * $words;
            fn dst_len(h: &TagHeader) -> usize {
                let s = h.size as usize;
                if $flooring {
                    s.saturating_sub(Self::BASE_SIZE) / $e
                } else {
                    assert!(s >= Self::BASE_SIZE);
                    assert_eq!((s - Self::BASE_SIZE) % $e, 0);
                    (s - Self::BASE_SIZE) / $e
                }
            }
        }
        impl Tag for $name {
            type IDType = TagType;
            const ID: TagType = TagType::Custom($id);
        }
    };
}

macro_rules! dst_family {
    ($( ($a:ident, $f:ident, $w:expr, $e:expr, $id:expr) ),* $(,)?) => {
        $( dst_tag!($a, $w, $e, $id, false); dst_tag!($f, $w, $e, $id + 0x100, true); )*
        const NDST: usize = [$($id),*].len();
        /// (type id, fixed, elem)
        const DSTS: [(u32, usize, usize); NDST] = [$(($id, 8 + 4 * $w, $e)),*];
        fn cast_dst(i: usize, flooring: bool, g: &DynSizedStructure<TagHeader>) -> (usize, usize) {
            let mut k = 0;
            $(
                if i == k {
                    return if flooring { view(g.cast::<$f>()) } else { view(g.cast::<$a>()) };
                }
                k += 1;
            )*
            let _ = k;
            unreachable!()
        }
        fn get_dst(i: usize, flooring: bool, bi: &BootInformation) -> Option<(usize, usize)> {
            let mut k = 0;
            $(
                if i == k {
                    return if flooring { bi.get_tag::<$f>().map(view) } else { bi.get_tag::<$a>().map(view) };
                }
                k += 1;
            )*
            let _ = k;
            unreachable!()
        }
    };
}

dst_family!(
    (A0_1, F0_1, 0, 1, 0x2000), (A0_2, F0_2, 0, 2, 0x2001), (A0_3, F0_3, 0, 3, 0x2002), (A0_4, F0_4, 0, 4, 0x2003), (A0_8, F0_8, 0, 8, 0x2004), (A0_24, F0_24, 0, 24, 0x2005),
    (A1_1, F1_1, 1, 1, 0x2010), (A1_2, F1_2, 1, 2, 0x2011), (A1_3, F1_3, 1, 3, 0x2012), (A1_4, F1_4, 1, 4, 0x2013), (A1_8, F1_8, 1, 8, 0x2014), (A1_24, F1_24, 1, 24, 0x2015),
    (A2_1, F2_1, 2, 1, 0x2020), (A2_2, F2_2, 2, 2, 0x2021), (A2_3, F2_3, 2, 3, 0x2022), (A2_4, F2_4, 2, 4, 0x2023), (A2_8, F2_8, 2, 8, 0x2024), (A2_24, F2_24, 2, 24, 0x2025),
    (A3_1, F3_1, 3, 1, 0x2030), (A3_2, F3_2, 3, 2, 0x2031), (A3_3, F3_3, 3, 3, 0x2032), (A3_4, F3_4, 3, 4, 0x2033), (A3_8, F3_8, 3, 8, 0x2034), (A3_24, F3_24, 3, 24, 0x2035),
    (A4_1, F4_1, 4, 1, 0x2040), (A4_2, F4_2, 4, 2, 0x2041), (A4_3, F4_3, 4, 3, 0x2042), (A4_4, F4_4, 4, 4, 0x2043), (A4_8, F4_8, 4, 8, 0x2044), (A4_24, F4_24, 4, 24, 0x2045),
);

/// (address, in-memory size) of a typed view + M3 touch of every byte
fn view<T: ?Sized>(t: &T) -> (usize, usize) {
    touch_val(t);
    (t as *const T as *const u8 as usize, core::mem::size_of_val(t))
}

fn cast_sized(i: usize, g: &DynSizedStructure<TagHeader>) -> (usize, usize) {
    match i {
        0 => view(g.cast::<S0>()),
        1 => view(g.cast::<S1>()),
        2 => view(g.cast::<S2>()),
        3 => view(g.cast::<S3>()),
        4 => view(g.cast::<S4>()),
        5 => view(g.cast::<S5>()),
        _ => view(g.cast::<S6>()),
    }
}
fn get_sized(i: usize, bi: &BootInformation) -> Option<(usize, usize)> {
    match i {
        0 => bi.get_tag::<S0>().map(view),
        1 => bi.get_tag::<S1>().map(view),
        2 => bi.get_tag::<S2>().map(view),
        3 => bi.get_tag::<S3>().map(view),
        4 => bi.get_tag::<S4>().map(view),
        5 => bi.get_tag::<S5>().map(view),
        _ => bi.get_tag::<S6>().map(view),
    }
}

fn cast_builtin(typ: u32, g: &DynSizedStructure<TagHeader>) -> (usize, usize) {
    match typ {
        0 => view(g.cast::<EndTag>()),
        1 => view(g.cast::<CommandLineTag>()),
        2 => view(g.cast::<BootLoaderNameTag>()),
        3 => view(g.cast::<ModuleTag>()),
        4 => view(g.cast::<BasicMemoryInfoTag>()),
        5 => view(g.cast::<BootdevTag>()),
        6 => view(g.cast::<MemoryMapTag>()),
        7 => view(g.cast::<VBEInfoTag>()),
        8 => view(g.cast::<FramebufferTag>()),
        9 => view(g.cast::<ElfSectionsTag>()),
        10 => view(g.cast::<ApmTag>()),
        11 => view(g.cast::<EFISdt32Tag>()),
        12 => view(g.cast::<EFISdt64Tag>()),
        13 => view(g.cast::<SmbiosTag>()),
        14 => view(g.cast::<RsdpV1Tag>()),
        15 => view(g.cast::<RsdpV2Tag>()),
        16 => view(g.cast::<NetworkTag>()),
        17 => view(g.cast::<EFIMemoryMapTag>()),
        18 => view(g.cast::<EFIBootServicesNotExitedTag>()),
        19 => view(g.cast::<EFIImageHandle32Tag>()),
        20 => view(g.cast::<EFIImageHandle64Tag>()),
        _ => view(g.cast::<ImageLoadPhysAddrTag>()),
    }
}
fn get_builtin(typ: u32, bi: &BootInformation) -> Option<(usize, usize)> {
    match typ {
        1 => bi.get_tag::<CommandLineTag>().map(view),
        2 => bi.get_tag::<BootLoaderNameTag>().map(view),
        3 => bi.get_tag::<ModuleTag>().map(view),
        4 => bi.get_tag::<BasicMemoryInfoTag>().map(view),
        5 => bi.get_tag::<BootdevTag>().map(view),
        6 => bi.get_tag::<MemoryMapTag>().map(view),
        7 => bi.get_tag::<VBEInfoTag>().map(view),
        8 => bi.get_tag::<FramebufferTag>().map(view),
        9 => bi.get_tag::<ElfSectionsTag>().map(view),
        10 => bi.get_tag::<ApmTag>().map(view),
        11 => bi.get_tag::<EFISdt32Tag>().map(view),
        12 => bi.get_tag::<EFISdt64Tag>().map(view),
        13 => bi.get_tag::<SmbiosTag>().map(view),
        14 => bi.get_tag::<RsdpV1Tag>().map(view),
        15 => bi.get_tag::<RsdpV2Tag>().map(view),
        16 => bi.get_tag::<NetworkTag>().map(view),
        17 => bi.get_tag::<EFIMemoryMapTag>().map(view),
        18 => bi.get_tag::<EFIBootServicesNotExitedTag>().map(view),
        19 => bi.get_tag::<EFIImageHandle32Tag>().map(view),
        20 => bi.get_tag::<EFIImageHandle64Tag>().map(view),
        _ => bi.get_tag::<ImageLoadPhysAddrTag>().map(view),
    }
}

const MAXSIZE: usize = 96;
/// target types: 7 sized + 30 DST x 2 flavours + 22 built-ins
const NTYPES: usize = 7 + 2 * NDST + 22;

fn type_desc(t: usize) -> (String, u32) {
    if t < 7 {
        (format!("sized tag, {} extra u32 words", t), 0x1000 + t as u32)
    } else if t < 7 + 2 * NDST {
        let i = (t - 7) / 2;
        let fl = (t - 7) % 2 == 1;
        let (id, f, e) = DSTS[i];
        (format!("DST tag fixed {} elem {} ({})", f, e, if fl { "flooring" } else { "asserting" }), if fl { id + 0x100 } else { id })
    } else {
        let typ = (t - 7 - 2 * NDST) as u32;
        (format!("built-in kind {} ({})", typ, MBI_KINDS[typ as usize].3), typ)
    }
}

impl C15 {
    fn one(&self, ctx: &mut Ctx, t: usize, size: usize) {
        let (what, id) = type_desc(t);
        // VBE's fixed part is 784 bytes: its size range is shifted so the
        // interesting boundary is inside it
        let size = if id == 7 && t >= 7 + 2 * NDST { 784 - 48 + size } else { size };
        let mut img = ctx.rng.bytes(round8(size));
        put32(&mut img, 0, id);
        put32(&mut img, 4, size as u32);
        if t >= 7 + 2 * NDST && ctx.rng.chance(3, 4) {
            // built-in kinds: a conformant body's prefix (plausible fixed fields
            // such as entry sizes and versions), so that the accessors get past
            // their own sanity checks whatever the tag size is
            let b = crate::gen::body(&mut ctx.rng, id);
            let n = b.len().min(size.saturating_sub(8));
            img[8..8 + n].copy_from_slice(&b[..n]);
        }
        if id == 7 && img.len() > 555 {
            img[555] = ctx.rng.below(8) as u8; // VBE memory_model: defined values only (known finding otherwise)
        }
        if id == 8 && img.len() > 29 {
            img[29] = ctx.rng.below(3) as u8;
        }
        let desc = |got: String| J::obj(vec![("target_type", J::s(what.clone())), ("tag_size", J::u(size as u64)), ("got", J::s(got)), ("tag_bytes", J::S(hex_trunc(&img, 48)))]);
        for via_get in [false, true] {
            if via_get && id == 0 {
                continue; // an end tag cannot be looked up in front of the terminator meaningfully
            }
            ctx.eval();
            let (reg, tag_off) = if via_get {
                let mut m = MbiBuf::new();
                m.push_raw(&img);
                m.push(0x4141_4141, &[0x42; 3]);
                (Region::new(ctx.placement, &m.finish()), 8usize)
            } else {
                // sized targets: see Region::new_slack
                let min = if t < 7 { round8(8 + 4 * t) } else if t >= 7 + 2 * NDST { crate::spec::sized_view_size(id).unwrap_or(0) } else { 0 };
                (Region::new_slack(ctx.placement, &img, min), 0usize)
            };
            let r = catch(|| -> Option<(usize, usize)> {
                if via_get {
                    let bi = unsafe { BootInformation::load(reg.ptr().cast::<BootInformationHeader>()) }.expect("loads");
                    if t < 7 {
                        get_sized(t, &bi)
                    } else if t < 7 + 2 * NDST {
                        get_dst((t - 7) / 2, (t - 7) % 2 == 1, &bi)
                    } else {
                        get_builtin(id, &bi)
                    }
                } else {
                    let g = DynSizedStructure::<TagHeader>::ref_from_slice(reg.as_slice()).expect("valid tag bytes");
                    Some(if t < 7 {
                        cast_sized(t, g)
                    } else if t < 7 + 2 * NDST {
                        cast_dst((t - 7) / 2, (t - 7) % 2 == 1, g)
                    } else {
                        cast_builtin(id, g)
                    })
                }
            });
            let lbl = if via_get { "get_tag" } else { "cast" };
            match r {
                Out::Panic(_) => ctx.count(&format!("{}:panic", lbl)),
                Out::Val(None) => ctx.violation(&format!("{}:not-found", lbl), desc("get_tag returned None for a present type".into())),
                Out::Val(Some((addr, sov))) => {
                    ctx.count(&format!("{}:view", lbl));
                    let off = reg.off_of(addr);
                    if off != tag_off as i64 || sov != round8(size) {
                        let sig = if sov > round8(size) { "view-larger-than-tag" } else if off != tag_off as i64 { "view-at-other-address" } else { "view-smaller-than-tag" };
                        ctx.violation(&format!("{}:{}", lbl, sig), desc(format!("view at tag{:+} with in-memory size {} (tag: {})", off - tag_off as i64, sov, round8(size))));
                    }
                }
            }
        }
        // the same cast from a slice that goes on behind the tag ("rest of the
        // buffer"): the generic structure, and so the typed view, must still have
        // the tag's own extent
        {
            ctx.eval();
            let mut longer = img.clone();
            longer.extend_from_slice(&[0x5A; 24]);
            let min = if t < 7 { round8(8 + 4 * t) } else if t >= 7 + 2 * NDST { crate::spec::sized_view_size(id).unwrap_or(0) } else { 0 };
            let reg = Region::new_slack(ctx.placement, &longer, min);
            let r = catch(|| -> (usize, Option<(usize, usize)>) {
                let g = DynSizedStructure::<TagHeader>::ref_from_slice(reg.as_slice()).expect("valid tag bytes");
                let gs = core::mem::size_of_val(g);
                let v = catch(|| {
                    if t < 7 {
                        cast_sized(t, g)
                    } else if t < 7 + 2 * NDST {
                        cast_dst((t - 7) / 2, (t - 7) % 2 == 1, g)
                    } else {
                        cast_builtin(id, g)
                    }
                });
                (gs, v.val())
            });
            match r {
                Out::Panic(_) => ctx.count("cast(longer-slice):panic"),
                Out::Val((gs, v)) => {
                    if gs != round8(size) {
                        ctx.violation("generic-structure-extent-from-slice", desc(format!("tag of size {} in a {}-byte slice: generic structure of {} bytes", size, longer.len(), gs)));
                    } else if let Some((addr, sov)) = v {
                        if sov != round8(size) || addr != reg.addr() {
                            ctx.violation("cast(longer-slice):view-larger-than-tag", desc(format!("view of {} bytes for a tag of {}", sov, size)));
                        }
                    }
                    ctx.count("cast(longer-slice):checked");
                }
            }
        }
        // built-in kinds: "the typed view's fields alias the tag's bytes" — run the
        // kind's accessors on the standalone tag; every slice/str they hand out
        // must lie inside the tag (M2) and is touched (M3)
        if t >= 7 + 2 * NDST {
            let min = crate::spec::sized_view_size(id).unwrap_or(0);
            let reg = Region::new_slack(ctx.placement, &img, min);
            let opts = crate::exercise::Opts { debug: false, debug_whole: false, strict_extent: true };
            let mut tr = crate::exercise::Tr::new(false, false);
            crate::exercise::standalone(ctx, &reg, &mut tr, &opts, &img);
            ctx.eval();
        }
        ctx.nontrivial(mix2(t as u64, size as u64));
        if ctx.want_sample() && size == 40 && t % 9 == 0 {
            ctx.sample(desc("(sample)".into()));
        }
    }
}

impl Driver for C15 {
    fn ncases(&self, _ctx: &Ctx) -> u64 {
        (NTYPES * (MAXSIZE - 8 + 1)) as u64
    }
    fn run_case(&mut self, ctx: &mut Ctx, idx: u64) {
        let t = idx as usize / (MAXSIZE - 7);
        let size = 8 + idx as usize % (MAXSIZE - 7);
        self.one(ctx, t, size);
    }
}
