//! C13 — searching a binary image for the header is exact and total.

use super::Driver;
use crate::region::Region;
use crate::spec::{find_header, Found, HDR_MAGIC};
use crate::util::*;
use multiboot2_header::Multiboot2Header;

pub struct C13;

fn lengths(ctx: &Ctx) -> Vec<usize> {
    let mut v: Vec<usize> = (0..=96).collect();
    v.extend(8150..=8230);
    v.extend(16340..=16400);
    let extra = match ctx.tier {
        Tier::Quick => 120,
        Tier::Thorough => 1500,
    };
    let mut r = Rng::new(mix2(ctx.seed, 0xc13));
    for _ in 0..extra {
        v.push(r.below(16 * 1024 + 1) as usize);
    }
    v
}

/// filler that can never form the magic d6 50 52 e8
fn filler(rng: &mut Rng, n: usize) -> Vec<u8> {
    (0..n).map(|_| 1 + rng.below(0x4f) as u8).collect()
}

fn put_magic(b: &mut [u8], at: usize) {
    b[at..at + 4].copy_from_slice(&HDR_MAGIC.to_le_bytes());
}

impl C13 {
    fn one(&self, ctx: &mut Ctx, buf: &[u8], what: &str) {
        let exp = find_header(buf);
        let reg = Region::new(ctx.placement, buf);
        let sl = reg.as_slice();
        ctx.eval();
        let r = catch(|| Multiboot2Header::find_header(sl));
        let desc = |got: String| {
            let first = buf.windows(4).position(|w| w == HDR_MAGIC.to_le_bytes());
            J::obj(vec![
                ("buffer_len", J::u(buf.len() as u64)),
                ("placement", J::s(what)),
                ("first_magic_at", first.map(|i| J::u(i as u64)).unwrap_or(J::Null)),
                ("stored_length", first.filter(|i| i + 12 <= buf.len()).map(|i| J::u(le32(buf, i + 8) as u64)).unwrap_or(J::Null)),
                ("expected", J::s(format!("{:?}", exp))),
                ("got", J::s(got)),
            ])
        };
        let expk = match exp {
            Found::NoHeader => "none",
            Found::At(..) => "found",
            Found::Error => "error",
        };
        match r {
            Out::Panic(site) => {
                ctx.count(&format!("panic@{}", site));
                ctx.violation(&format!("find_header-panics@{}:{}", site, expk), desc("panic".into()));
            }
            Out::Val(Ok(None)) => {
                ctx.count("Ok(None)");
                if exp != Found::NoHeader {
                    ctx.violation(&format!("none-but-{}", expk), desc("Ok(None)".into()));
                }
            }
            Out::Val(Ok(Some((s, i)))) => {
                ctx.count("Ok(Some)");
                let off = reg.off_of(s.as_ptr() as usize);
                let good = match exp {
                    Found::At(ei, el) => i as usize == ei && off == ei as i64 && s.len() == el,
                    _ => false,
                };
                if good {
                    touch(s);
                } else {
                    ctx.violation(&format!("found-but-{}", expk), desc(format!("Ok(Some((slice@{} len {}, {})))", off, s.len(), i)));
                }
            }
            Out::Val(Err(e)) => {
                ctx.count(&format!("Err({:?})", e));
                if exp != Found::Error {
                    ctx.violation(&format!("error-but-{}", expk), desc(format!("Err({:?})", e)));
                }
            }
        }
        let first = buf.windows(4).position(|w| w == HDR_MAGIC.to_le_bytes()).unwrap_or(usize::MAX);
        let lcls = if first != usize::MAX && first + 12 <= buf.len() { le32(buf, first + 8) as u64 } else { u64::MAX };
        ctx.nontrivial(mix2(mix2(buf.len() as u64, first as u64), lcls));
        if ctx.want_sample() && expk == "found" {
            ctx.sample(desc("(sample)".into()));
        }
    }
}

impl Driver for C13 {
    fn ncases(&self, ctx: &Ctx) -> u64 {
        lengths(ctx).len() as u64
    }

    fn run_case(&mut self, ctx: &mut Ctx, idx: u64) {
        let len = lengths(ctx)[idx as usize];
        let base = filler(&mut ctx.rng, len);
        // no magic at all
        self.one(ctx, &base, "none");
        if len < 4 {
            return;
        }
        // candidate positions of the (first) magic
        let mut pos: Vec<usize> = vec![0, 4, 8];
        for d in 0..=16 {
            pos.push(len.saturating_sub(d));
        }
        pos.extend(8180..=8196);
        pos.push(ctx.rng.below(len as u64) as usize & !7);
        pos.push(ctx.rng.below(len as u64) as usize);
        pos.retain(|&p| p + 4 <= len);
        pos.sort();
        pos.dedup();
        // under Miri one scan costs thousands of interpreted steps: thin out
        if cfg!(miri) {
            let keep = 3;
            let mut sel = vec![];
            for _ in 0..keep.min(pos.len()) {
                sel.push(*ctx.rng.pick(&pos));
            }
            pos = sel;
        }
        // bytes of the magic itself right in front of (or instead of) the real
        // occurrence: d6 / d6 50 / d6 50 52 and single magic bytes
        for &i in &pos {
            for k in 1..=3usize {
                for pre in [&[0xd6u8][..], &[0xd6, 0x50][..], &[0xd6, 0x50, 0x52][..], &[0xe8][..], &[0x52, 0xe8][..]] {
                    if i < k || pre.len() > k || cfg!(miri) && !ctx.rng.chance(1, 20) {
                        continue;
                    }
                    let mut b = base.clone();
                    put_magic(&mut b, i);
                    if i + 12 <= len {
                        put32(&mut b, i + 8, (len - i) as u32 & !7);
                    }
                    b[i - k..i - k + pre.len()].copy_from_slice(pre);
                    self.one(ctx, &b, "near-magic-prefix");
                }
            }
        }
        for &i in &pos {
            let rem = len - i;
            let ls: Vec<u32> = vec![0, 8, 16, (rem as u32).wrapping_sub(1), rem as u32, rem as u32 + 1, 1 << 31, u32::MAX, (rem as u32) & !7];
            let ls = if cfg!(miri) { vec![*ctx.rng.pick(&ls)] } else { ls };
            for l in ls {
                let mut b = base.clone();
                put_magic(&mut b, i);
                if i + 12 <= len {
                    put32(&mut b, i + 8, l);
                }
                self.one(ctx, &b, "single");
            }
        }
        // two occurrences: misaligned first, aligned later (and the reverse)
        if len >= 64 {
            let mut b = base.clone();
            put_magic(&mut b, 12);
            put_magic(&mut b, 32);
            put32(&mut b, 40, 16);
            self.one(ctx, &b, "misaligned-then-aligned");
            let mut b = base.clone();
            put_magic(&mut b, 16);
            put32(&mut b, 24, 24);
            put_magic(&mut b, 44);
            self.one(ctx, &b, "aligned-then-misaligned");
        }
    }
}
