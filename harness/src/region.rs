//! Region placement (E1/E3: exact heap allocation; E2: flush against guard
//! pages) and the crash monitor (signal handlers).

use crate::util::{Placement, CURRENT_CASE};
use std::alloc::{alloc, dealloc, Layout};
use std::cell::RefCell;
use std::sync::atomic::Ordering;

#[cfg(not(miri))]
mod sys {
    pub const PROT_NONE: i32 = 0;
    pub const PROT_READ: i32 = 1;
    pub const PROT_WRITE: i32 = 2;
    pub const MAP_PRIVATE: i32 = 2;
    pub const MAP_ANONYMOUS: i32 = 0x20;
    pub const SA_SIGINFO: i32 = 4;
    pub const SA_ONSTACK: i32 = 0x0800_0000;
    pub const SA_NODEFER: i32 = 0x4000_0000;
    #[repr(C)]
    pub struct SigAction {
        pub handler: usize,
        pub mask: [u64; 16],
        pub flags: i32,
        pub restorer: usize,
    }
    extern "C" {
        pub fn mmap(addr: *mut u8, len: usize, prot: i32, flags: i32, fd: i32, off: i64)
            -> *mut u8;
        pub fn mprotect(addr: *mut u8, len: usize, prot: i32) -> i32;
        pub fn munmap(addr: *mut u8, len: usize) -> i32;
        pub fn sigaction(sig: i32, act: *const SigAction, old: *mut SigAction) -> i32;
        pub fn write(fd: i32, buf: *const u8, n: usize) -> isize;
        pub fn _exit(code: i32) -> !;
    }
}

const PAGE: usize = 4096;
/// data pages per pooled arena
const ARENA_DATA: usize = 16 * PAGE;

#[cfg(not(miri))]
struct Arena {
    base: *mut u8,
    data: usize,
}

#[cfg(not(miri))]
impl Arena {
    fn new(data: usize) -> Arena {
        let total = data + 2 * PAGE;
        unsafe {
            let base = sys::mmap(
                core::ptr::null_mut(),
                total,
                sys::PROT_READ | sys::PROT_WRITE,
                sys::MAP_PRIVATE | sys::MAP_ANONYMOUS,
                -1,
                0,
            );
            assert!(base as isize != -1, "mmap failed");
            assert_eq!(sys::mprotect(base, PAGE, sys::PROT_NONE), 0);
            assert_eq!(sys::mprotect(base.add(PAGE + data), PAGE, sys::PROT_NONE), 0);
            Arena { base, data }
        }
    }
    fn data_start(&self) -> *mut u8 {
        unsafe { self.base.add(PAGE) }
    }
    fn data_end(&self) -> *mut u8 {
        unsafe { self.base.add(PAGE + self.data) }
    }
}

#[cfg(not(miri))]
thread_local! {
    static POOL: RefCell<Vec<Arena>> = const { RefCell::new(Vec::new()) };
}

enum Backing {
    Heap { base: *mut u8, layout: Layout },
    Empty,
    #[cfg(not(miri))]
    Guard { arena: Option<Arena>, pooled: bool },
}

/// A copy of `bytes` placed so that any access outside it is observable.
pub struct Region {
    ptr: *mut u8,
    len: usize,
    backing: Backing,
}

impl Region {
    /// 8-aligned start, exact extent.
    pub fn new(p: Placement, bytes: &[u8]) -> Region {
        Self::with_misalign(p, bytes, 0, false)
    }

    /// Like `new`, but under Miri/heap placement the *allocation* holds at least
    /// `min_alloc` bytes (the region proper stays `bytes.len()`). Used for
    /// standalone tags that are cast to a sized type bigger than the tag:
    /// `cast` forms the (too large) reference before its size assertion
    /// panics; nothing is read through it and it is never handed out, but
    /// Miri's validity check on reference creation would end the run. No
    /// property speaks about that transient reference (DESIGN §5).
    pub fn new_slack(p: Placement, bytes: &[u8], min_alloc: usize) -> Region {
        match p {
            Placement::Heap => Self::heap_min(bytes, 0, min_alloc),
            #[cfg(miri)]
            Placement::Guard => Self::heap_min(bytes, 0, min_alloc),
            #[cfg(not(miri))]
            Placement::Guard => Self::new(p, bytes),
        }
    }

    /// Left-flush variant (guards against reads *before* the region).
    pub fn new_left(p: Placement, bytes: &[u8]) -> Region {
        Self::with_misalign(p, bytes, 0, true)
    }

    /// Start address is `misalign` (0..=7) bytes past an 8-aligned address.
    pub fn with_misalign(p: Placement, bytes: &[u8], misalign: usize, left: bool) -> Region {
        assert!(misalign < 8);
        let len = bytes.len();
        match p {
            Placement::Heap => Self::heap(bytes, misalign),
            #[cfg(miri)]
            Placement::Guard => Self::heap(bytes, misalign),
            #[cfg(not(miri))]
            Placement::Guard => {
                let need = len + 16;
                let (arena, pooled) = if need <= ARENA_DATA {
                    let a = POOL
                        .with(|p| p.borrow_mut().pop())
                        .unwrap_or_else(|| Arena::new(ARENA_DATA));
                    (a, true)
                } else {
                    (Arena::new((need + PAGE - 1) / PAGE * PAGE), false)
                };
                let ptr = if left {
                    unsafe { arena.data_start().add(misalign) }
                } else {
                    // right-flush: the end is as close to the guard page as the
                    // required start alignment allows (exactly flush when
                    // (len + misalign) % 8 == 0).
                    let end = arena.data_end() as usize;
                    let start = ((end - len - misalign) & !7) + misalign;
                    start as *mut u8
                };
                unsafe {
                    // slack between region end and guard: non-zero markers
                    let end = arena.data_end() as usize;
                    let reg_end = ptr as usize + len;
                    if !left {
                        for a in reg_end..end {
                            *(a as *mut u8) = 0xA5;
                        }
                        // bytes just before the region: markers, too
                        let lo = (ptr as usize).saturating_sub(32).max(arena.data_start() as usize);
                        for a in lo..ptr as usize {
                            *(a as *mut u8) = 0x5A;
                        }
                    } else {
                        let hi = (reg_end + 32).min(end);
                        for a in reg_end..hi {
                            *(a as *mut u8) = 0xA5;
                        }
                        for a in arena.data_start() as usize..ptr as usize {
                            *(a as *mut u8) = 0x5A;
                        }
                    }
                    core::ptr::copy_nonoverlapping(bytes.as_ptr(), ptr, len);
                }
                Region {
                    ptr,
                    len,
                    backing: Backing::Guard {
                        arena: Some(arena),
                        pooled,
                    },
                }
            }
        }
    }

    fn heap(bytes: &[u8], misalign: usize) -> Region {
        Self::heap_min(bytes, misalign, 0)
    }

    fn heap_min(bytes: &[u8], misalign: usize, min_alloc: usize) -> Region {
        let len = bytes.len();
        let total = (len + misalign).max(min_alloc);
        if total == 0 {
            return Region {
                ptr: 8 as *mut u8,
                len: 0,
                backing: Backing::Empty,
            };
        }
        let layout = Layout::from_size_align(total, 8).unwrap();
        unsafe {
            let base = alloc(layout);
            assert!(!base.is_null());
            for i in 0..misalign {
                *base.add(i) = 0x5A;
            }
            let ptr = base.add(misalign);
            core::ptr::copy_nonoverlapping(bytes.as_ptr(), ptr, len);
            for i in misalign + len..total {
                *base.add(i) = 0xA5;
            }
            Region {
                ptr,
                len,
                backing: Backing::Heap { base, layout },
            }
        }
    }

    pub fn ptr(&self) -> *const u8 {
        self.ptr
    }
    pub fn ptr_mut(&mut self) -> *mut u8 {
        self.ptr
    }
    pub fn addr(&self) -> usize {
        self.ptr as usize
    }
    pub fn len(&self) -> usize {
        self.len
    }
    pub fn as_slice(&self) -> &[u8] {
        unsafe { core::slice::from_raw_parts(self.ptr, self.len) }
    }
    pub fn as_mut_slice(&mut self) -> &mut [u8] {
        unsafe { core::slice::from_raw_parts_mut(self.ptr, self.len) }
    }
    /// offset of `addr` relative to the region start (may be negative / beyond)
    pub fn off_of(&self, addr: usize) -> i64 {
        addr as i64 - self.ptr as usize as i64
    }
    /// does [addr, addr+n) lie inside the region?
    pub fn contains(&self, addr: usize, n: usize) -> bool {
        let s = self.ptr as usize;
        addr >= s && addr.checked_add(n).map_or(false, |e| e <= s + self.len)
    }
}

impl Drop for Region {
    fn drop(&mut self) {
        match &mut self.backing {
            Backing::Heap { base, layout } => unsafe { dealloc(*base, *layout) },
            Backing::Empty => {}
            #[cfg(not(miri))]
            Backing::Guard { arena, pooled } => {
                let a = arena.take().unwrap();
                if *pooled {
                    POOL.with(|p| p.borrow_mut().push(a));
                } else {
                    unsafe {
                        sys::munmap(a.base, a.data + 2 * PAGE);
                    }
                }
            }
        }
    }
}

// --------------------------------------------------------- crash monitor ----

#[cfg(not(miri))]
extern "C" fn on_signal(sig: i32, _info: *mut u8, _ctx: *mut u8) {
    // async-signal-safe: format by hand, write(2), _exit(2)
    let mut buf = [0u8; 96];
    let mut n = 0;
    for &b in b"\nCRASH sig=" {
        buf[n] = b;
        n += 1;
    }
    n += fmt_u64(sig as u64, &mut buf[n..]);
    for &b in b" case=" {
        buf[n] = b;
        n += 1;
    }
    n += fmt_u64(CURRENT_CASE.load(Ordering::Relaxed), &mut buf[n..]);
    for &b in b" pos=" {
        buf[n] = b;
        n += 1;
    }
    n += fmt_u64(crate::util::CURRENT_POS.load(Ordering::Relaxed), &mut buf[n..]);
    buf[n] = b'\n';
    n += 1;
    unsafe {
        sys::write(1, buf.as_ptr(), n);
        sys::_exit(42);
    }
}

#[cfg(not(miri))]
fn fmt_u64(mut v: u64, out: &mut [u8]) -> usize {
    let mut tmp = [0u8; 20];
    let mut i = 0;
    if v == 0 {
        tmp[0] = b'0';
        i = 1;
    }
    while v > 0 {
        tmp[i] = b'0' + (v % 10) as u8;
        v /= 10;
        i += 1;
    }
    for k in 0..i {
        out[k] = tmp[i - 1 - k];
    }
    i
}

/// SIGSEGV/SIGBUS/SIGABRT/SIGILL/SIGFPE end the process with a `CRASH` line
/// naming the current case, so the orchestrator has the witness.
pub fn install_crash_monitor() {
    #[cfg(not(miri))]
    unsafe {
        for sig in [11, 7, 6, 4, 8] {
            let act = sys::SigAction {
                handler: on_signal as *const () as usize,
                mask: [0; 16],
                flags: sys::SA_SIGINFO | sys::SA_ONSTACK | sys::SA_NODEFER,
                restorer: 0,
            };
            sys::sigaction(sig, &act, core::ptr::null_mut());
        }
    }
}

#[allow(dead_code)]
pub fn _unused() {
    let _ = CURRENT_CASE.load(Ordering::Relaxed);
    let _: RefCell<u8> = RefCell::new(0);
}
