"""Engine definitions shared by verif.py and plans.py: how each harness configuration is built and run."""
import os
import shutil
import subprocess

VERIF = os.path.dirname(os.path.abspath(__file__))
REPO = os.environ.get("MB2_REPO", "/repo").rstrip("/")
ALT = REPO != "/repo"
# several alternative repositories can be checked at the same time (mutate.py): each gets
# its own generated manifest and target directories
ALT_TAG = os.environ.get("MB2_ALT_TAG", "")
NCPU = min(16, os.cpu_count() or 1)


def _alt_harness():
    """Checks normally build against /repo. With MB2_REPO=<dir> (a scratch worktree of
    /repo holding a seeded change) a generated copy of the harness manifest with the
    paths replaced is used, with its own target directories, so that seeded changes can
    be tried without touching /repo (e.g. while a long run uses it)."""
    d = os.path.join(VERIF, ".alt-harness" + ALT_TAG)
    os.makedirs(d, exist_ok=True)
    src = os.path.join(VERIF, "harness")
    man = open(os.path.join(src, "Cargo.toml")).read().replace('"/repo/', '"' + REPO + '/')
    if not os.path.exists(os.path.join(d, "Cargo.toml")) or open(os.path.join(d, "Cargo.toml")).read() != man:
        open(os.path.join(d, "Cargo.toml"), "w").write(man)
    for name in ("src", ".cargo"):
        link = os.path.join(d, name)
        if not os.path.islink(link):
            if os.path.exists(link):
                shutil.rmtree(link)
            os.symlink(os.path.join(src, name), link)
    shutil.copy(os.path.join(src, "Cargo.lock"), os.path.join(d, "Cargo.lock"))
    return d


HARNESS = _alt_harness() if ALT else os.path.join(VERIF, "harness")

MIRIFLAGS = "-Zmiri-disable-stacked-borrows -Zmiri-permissive-provenance -Zmiri-disable-isolation"

ENV_BASE = dict(os.environ)
ENV_BASE["CARGO_NET_OFFLINE"] = "true"
ENV_BASE.pop("RUSTFLAGS", None)

# ---------------------------------------------------------------- engines ----
# name -> (cargo args for build, env overrides, target dir, path of binary or None for miri)
ENGINES = {
    "dev": dict(tool="stable", profile="dev", features=True),
    "rel": dict(tool="stable", profile="release", features=True),
    "nd-dev": dict(tool="stable", profile="dev", features=False),
    "nd-rel": dict(tool="stable", profile="release", features=False),
    "al-dev": dict(tool="stable", profile="dev", features=False, alloc=True),
    "al-rel": dict(tool="stable", profile="release", features=False, alloc=True),
    "asan": dict(tool="asan", profile="release", features=True),
    "miri": dict(tool="miri", profile="dev", features=True),
    "miri-rel": dict(tool="miri", profile="release", features=True),
}


def target_dir(engine):
    e = ENGINES[engine]
    if e["tool"] == "miri":
        return os.path.join(VERIF, "target-alt" + ALT_TAG + "-miri" if ALT else "target-miri")
    if e["tool"] == "asan":
        return os.path.join(VERIF, "target-alt" + ALT_TAG + "-asan" if ALT else "target-asan")
    return os.path.join(VERIF, ("target-alt" + ALT_TAG + "-" if ALT else "target-") + ("al" if e.get("alloc") else "nd" if not e["features"] else "std"))


def engine_env(engine):
    env = dict(ENV_BASE)
    e = ENGINES[engine]
    if e["tool"] == "asan":
        env["RUSTFLAGS"] = "-Zsanitizer=address -Cforce-frame-pointers=yes"
        env["ASAN_OPTIONS"] = "halt_on_error=1:abort_on_error=1:detect_leaks=1:allocator_may_return_null=1"
    if e["tool"] == "miri":
        env["MIRIFLAGS"] = MIRIFLAGS
    return env


def cargo_base(engine):
    e = ENGINES[engine]
    cmd = ["cargo"]
    if e["tool"] in ("asan", "miri"):
        cmd.append("+nightly")
    return cmd


def build_cmd(engine):
    e = ENGINES[engine]
    cmd = cargo_base(engine)
    if e["tool"] == "miri":
        # `miri run` builds; the build step proper is a run that exits at once
        cmd += ["miri", "run"]
    else:
        cmd += ["build"]
    cmd += ["--manifest-path", os.path.join(HARNESS, "Cargo.toml"), "--target-dir", target_dir(engine), "--offline", "-q"]
    if e["profile"] == "release":
        cmd.append("--release")
    if not e["features"]:
        cmd.append("--no-default-features")
    if e.get("alloc"):
        cmd += ["--features", "alloc"]
    if e["tool"] == "asan":
        cmd += ["--target", "x86_64-unknown-linux-gnu"]
    if e["tool"] == "miri":
        cmd += ["--", "NOOP"]
    return cmd


def binary(engine):
    e = ENGINES[engine]
    prof = "debug" if e["profile"] == "dev" else "release"
    if e["tool"] == "asan":
        return os.path.join(target_dir(engine), "x86_64-unknown-linux-gnu", prof, "mb2mon")
    return os.path.join(target_dir(engine), prof, "mb2mon")


def run_cmd(engine, args):
    e = ENGINES[engine]
    if e["tool"] == "miri":
        cmd = cargo_base(engine) + ["miri", "run", "--manifest-path", os.path.join(HARNESS, "Cargo.toml"),
                                    "--target-dir", target_dir(engine), "--offline", "-q"]
        if e["profile"] == "release":
            cmd.append("--release")
        return cmd + ["--"] + args + ["--trace"]
    extra = ["--placement", "heap"] if e["tool"] == "asan" else []
    return [binary(engine)] + args + extra


_built = set()


def build(engine, log=None):
    """(Re)build one harness configuration against /repo's current tree."""
    if engine in _built:
        return True, ""
    # keep the lock file in sync with the repository's
    try:
        src = os.path.join(REPO, "Cargo.lock")
        dst = os.path.join(HARNESS, "Cargo.lock")
        if not os.path.exists(dst):
            shutil.copy(src, dst)
    except OSError:
        pass
    cmd = build_cmd(engine)
    p = subprocess.run(cmd, env=engine_env(engine), cwd=HARNESS, stdout=subprocess.PIPE, stderr=subprocess.STDOUT, text=True)
    out = p.stdout
    ok = p.returncode == 0 or (ENGINES[engine]["tool"] == "miri" and "unknown property/driver NOOP" in out)
    if ok:
        _built.add(engine)
    return ok, out


