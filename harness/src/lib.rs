//! `mb2mon` library part: monitors, reference model, generators, drivers
//! (see /verif/DESIGN.md). The binary `mb2mon` and the optional libFuzzer
//! target (fuzz/) link against it.

#![allow(clippy::all)]
#![allow(deprecated)]
#![allow(dead_code, unused_imports, unused_variables)]

pub mod alloc_ledger;
pub mod iterproto;
pub mod drivers;
pub mod exercise;
pub mod exercise_hdr;
pub mod fuzz_entry;
pub mod gen;
pub mod region;
pub mod spec;
pub mod util;
