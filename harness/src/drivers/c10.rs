//! C10 — header loading accepts exactly magic- and checksum-valid headers;
//! checksum law.

use super::Driver;
use crate::region::Region;
use crate::spec::{checksum, hdr_verdict, Verdict, HDR_MAGIC};
use crate::util::*;
use multiboot2_common::MemoryError;
use multiboot2_header::{HeaderTagISA, LoadError, Multiboot2BasicHeader, Multiboot2Header};

pub struct C10;

fn law_blocks(ctx: &Ctx) -> Vec<u32> {
    // block = 2^20 consecutive lengths
    match ctx.tier {
        Tier::Thorough => (0..4096).collect(),
        Tier::Quick => {
            let mut v: Vec<u32> = (0..8).collect();
            // where magic + arch + length crosses 2^32 (0x17ADAF2A) and the ends
            for b in [0x17a, 0x17b, 0x7ff, 0x800, 0xffe, 0xfff] {
                v.push(b);
            }
            let mut r = Rng::new(mix2(ctx.seed, 0xc10));
            while v.len() < 14 + 114 {
                let b = r.below(4096) as u32;
                if !v.contains(&b) {
                    v.push(b);
                }
            }
            v
        }
    }
}

fn max_len(ctx: &Ctx) -> u64 {
    match ctx.tier {
        Tier::Quick => 256,
        Tier::Thorough => 8192,
    }
}

fn big_lens() -> Vec<u32> {
    let mut v = vec![];
    for p in 9..=20u32 {
        for d in [-8i64, -1, 0, 1, 8] {
            v.push(((1i64 << p) + d) as u32);
        }
    }
    v
}

fn classify(r: &Result<Multiboot2Header, LoadError>) -> Verdict {
    match r {
        Ok(_) => Verdict::Ok,
        Err(LoadError::ChecksumMismatch) => Verdict::ChecksumMismatch,
        Err(LoadError::MagicNotFound) => Verdict::MagicNotFound,
        Err(LoadError::Memory(MemoryError::ShorterThanHeader)) => Verdict::ShorterThanHeader,
        Err(LoadError::Memory(MemoryError::MissingPadding)) => Verdict::MissingPadding,
        Err(LoadError::Memory(_)) => Verdict::NoEndTag, // not in the precedence list
    }
}

impl C10 {
    fn law_block(&self, ctx: &mut Ctx, b: u32) {
        let lo = (b as u64) << 20;
        let n: u64 = if cfg!(miri) { 64 } else { 1 << 20 };
        let mut bad: Option<(u32, u32, String)> = None;
        'outer: for (ai, arch) in [HeaderTagISA::I386, HeaderTagISA::MIPS32].into_iter().enumerate() {
            let a = [0u32, 4][ai];
            // fast path: no panic expected; the whole block runs under one catch
            let r = catch(|| {
                for l in lo..lo + n {
                    let l = l as u32;
                    let c = Multiboot2Header::calc_checksum(HDR_MAGIC, arch, l);
                    if c.wrapping_add(HDR_MAGIC).wrapping_add(a).wrapping_add(l) != 0 {
                        return Some(l);
                    }
                }
                None
            });
            match r {
                Out::Val(None) => {}
                Out::Val(Some(l)) => {
                    bad = Some((a, l, "congruence violated".into()));
                    break 'outer;
                }
                Out::Panic(site) => {
                    // locate the first panicking length
                    let mut first = lo as u32;
                    for l in lo..lo + n {
                        if catch(|| Multiboot2Header::calc_checksum(HDR_MAGIC, arch, l as u32)).is_panic() {
                            first = l as u32;
                            break;
                        }
                    }
                    bad = Some((a, first, format!("panic@{}", site)));
                    break 'outer;
                }
            }
        }
        ctx.evals(2 * n);
        ctx.count_n("law:values", 2 * n);
        if let Some((a, l, what)) = bad {
            let sig = if what.starts_with("panic") { format!("calc_checksum-{}", what) } else { "calc_checksum-wrong".into() };
            ctx.violation(&sig, J::obj(vec![("magic", J::u(HDR_MAGIC as u64)), ("arch", J::u(a as u64)), ("length", J::u(l as u64)), ("what", J::s(what))]));
        }
        ctx.nontrivial(mix2(0x1a3, b as u64));
    }

    fn law_random(&self, ctx: &mut Ctx) {
        let n: u64 = if cfg!(miri) { 64 } else { 1 << 16 };
        for _ in 0..n {
            let m = ctx.rng.u32_edge();
            let l = ctx.rng.u32_edge();
            let (arch, a) = if ctx.rng.chance(1, 2) { (HeaderTagISA::I386, 0u32) } else { (HeaderTagISA::MIPS32, 4) };
            let r = catch(|| Multiboot2BasicHeader::calc_checksum(m, arch, l));
            let ok = match &r {
                Out::Val(c) => c.wrapping_add(m).wrapping_add(a).wrapping_add(l) == 0 && *c == checksum(m, a, l),
                Out::Panic(_) => false,
            };
            if !ok {
                let sig = match &r {
                    Out::Panic(s) => format!("calc_checksum-panic@{}", s),
                    _ => "calc_checksum-wrong".into(),
                };
                ctx.violation(&sig, J::obj(vec![("magic", J::u(m as u64)), ("arch", J::u(a as u64)), ("length", J::u(l as u64)), ("got", J::s(format!("{:?}", r)))]));
                break;
            }
        }
        ctx.evals(n);
        ctx.count_n("law:random-triples", n);
    }

    fn load_len(&self, ctx: &mut Ctx, len: u32) {
        for arch in [0u32, 4] {
            for magic_ok in [true, false] {
                for chk in 0..3 {
                    let n = (len as usize).max(16);
                    let mut mem = vec![0xA3u8 ^ (ctx.rng.u8() & 0xf); n];
                    let magic = if magic_ok { HDR_MAGIC } else { HDR_MAGIC ^ (1 << ctx.rng.below(32)) };
                    let c = match chk {
                        0 => checksum(magic, arch, len),
                        1 => checksum(magic, arch, len).wrapping_add(1),
                        _ => ctx.rng.u32(),
                    };
                    put32(&mut mem, 0, magic);
                    put32(&mut mem, 4, arch);
                    put32(&mut mem, 8, len);
                    put32(&mut mem, 12, c);
                    let exp = hdr_verdict(&mem);
                    let reg = Region::new(ctx.placement, &mem);
                    ctx.eval();
                    let out = catch(|| unsafe { Multiboot2Header::load(reg.ptr().cast::<Multiboot2BasicHeader>()) });
                    let desc = || {
                        J::obj(vec![
                            ("length", J::u(len as u64)),
                            ("arch", J::u(arch as u64)),
                            ("magic_ok", J::B(magic_ok)),
                            ("checksum", J::s(["right", "off-by-one", "random"][chk])),
                            ("header_hex", J::hex(&mem[..16])),
                            ("expected", J::s(format!("{:?}", exp))),
                        ])
                    };
                    match out {
                        Out::Panic(site) => {
                            ctx.count(&format!("load:Panic@{}", site));
                            ctx.violation(&format!("load-panics@{}", site), desc());
                        }
                        Out::Val(r) => {
                            let got = classify(&r);
                            ctx.count(&format!("load:{:?}", got));
                            if got != exp {
                                ctx.violation(
                                    &format!("verdict:{:?}!={:?}", got, exp),
                                    J::obj(vec![("observed", J::s(format!("{:?}", r.as_ref().err()))), ("input", desc())]),
                                );
                            }
                        }
                    }
                    ctx.nontrivial(mix2(mix2(len as u64, arch as u64), (magic_ok as u64) * 3 + chk as u64));
                    if ctx.want_sample() && len >= 16 && len % 24 == 0 && chk == 0 {
                        ctx.sample(desc());
                    }
                }
            }
        }
    }
}

impl Driver for C10 {
    fn ncases(&self, ctx: &Ctx) -> u64 {
        law_blocks(ctx).len() as u64 + 16 + 1 + (max_len(ctx) + 1) + big_lens().len() as u64
    }

    fn run_case(&mut self, ctx: &mut Ctx, idx: u64) {
        let lb = law_blocks(ctx);
        let mut k = idx;
        if (k as usize) < lb.len() {
            return self.law_block(ctx, lb[k as usize]);
        }
        k -= lb.len() as u64;
        if k < 16 {
            return self.law_random(ctx);
        }
        k -= 16;
        if k == 0 {
            ctx.eval();
            match catch(|| unsafe { Multiboot2Header::load(core::ptr::null()) }) {
                Out::Val(Err(LoadError::Memory(MemoryError::Null))) => ctx.count("load:Null"),
                o => ctx.violation("null-pointer", J::s(format!("panic={}", o.is_panic()))),
            }
            return;
        }
        k -= 1;
        let m = max_len(ctx) + 1;
        let len = if k < m { k as u32 } else { big_lens()[(k - m) as usize] };
        self.load_len(ctx, len);
    }
}
