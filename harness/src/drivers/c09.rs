//! C09 — header parsing never reads outside the declared header.

use super::Driver;
use crate::exercise::{Opts, Tr};
use crate::exercise_hdr;
use crate::gen;
use crate::region::Region;
use crate::spec::*;
use crate::util::*;
use multiboot2_header::{Multiboot2BasicHeader, Multiboot2Header};

pub struct C09;

impl Driver for C09 {
    fn ncases(&self, ctx: &Ctx) -> u64 {
        match ctx.tier {
            Tier::Quick => 2_000_000,
            Tier::Thorough => 100_000_000,
        }
    }
    fn run_case(&mut self, ctx: &mut Ctx, idx: u64) {
        // declared lengths 12..=15: the declared header ends inside the fixed
        // 16-byte part; nothing behind the declared length may be read (the
        // length word itself ends at 12). Not under Miri: load() forms a
        // reference to the 16-byte basic header before it looks at the length,
        // which is no read (DESIGN section 5).
        if !cfg!(miri) && mix(idx ^ 0x909) % 64 == 0 {
            let len = 12 + ctx.rng.below(4) as u32;
            let arch = *ctx.rng.pick(&gen::ARCHS);
            let mut mem = vec![0u8; 16];
            put32(&mut mem, 0, HDR_MAGIC);
            put32(&mut mem, 4, arch);
            put32(&mut mem, 8, len);
            put32(&mut mem, 12, checksum(HDR_MAGIC, arch, len));
            let reg = Region::new(ctx.placement, &mem[..len as usize]);
            ctx.eval();
            ctx.case_desc = Some(J::obj(vec![("sub", J::s("length-inside-fixed-header")), ("length", J::u(len as u64)), ("header", J::hex(&mem[..len as usize]))]));
            match catch(|| unsafe { Multiboot2Header::load(reg.ptr().cast::<Multiboot2BasicHeader>()) }.map(|h| h.length())) {
                Out::Val(Ok(l)) => ctx.violation("header-shorter-than-16-accepted", J::s(format!("declared length {} -> Ok (length() = {})", len, l))),
                Out::Val(Err(e)) => ctx.count(&format!("short-length:Err({:?})", e)),
                Out::Panic(_) => ctx.count("short-length:Panic"),
            }
            ctx.nontrivial(mix2(0x909, len as u64 * 8 + arch as u64));
            return;
        }
        let (mut bytes, tags) = gen::conformant_hdr(&mut ctx.rng, if cfg!(miri) { 5 } else { 10 });
        let labels = match ctx.rng.below(12) {
            0 => vec!["conformant".to_string()],
            1 => {
                // payload bytes of the tags randomised, enumerated fields kept defined:
                // only u32 payload words that are not enum fields are touched
                for t in &tags {
                    if matches!(t.htyp(), H_ADDRESS | H_ENTRY | H_FB | H_ENTRY_EFI32 | H_ENTRY_EFI64 | H_INFOREQ) {
                        for o in (t.off + 8..t.off + t.size as usize).step_by(4) {
                            if o + 4 <= bytes.len() {
                                put32(&mut bytes, o, ctx.rng.u32_edge());
                            }
                        }
                    }
                }
                vec!["payload-randomised".to_string()]
            }
            _ => gen::corrupt_hdr(&mut ctx.rng, &mut bytes, &tags),
        };
        // backing store: max(declared length, 16), bounded
        let len = le32(&bytes, 8) as usize;
        if len > 1 << 16 {
            let n = bytes.len() as u32;
            put32(&mut bytes, 8, n);
            let arch = le32(&bytes, 4);
            put32(&mut bytes, 12, checksum(HDR_MAGIC, arch, n));
        }
        let len = le32(&bytes, 8) as usize;
        if len > bytes.len() {
            // extension: well-formed filler tags (defined type/flags), so that the premise
            // "enumerated fields hold defined values" also holds for what a longer walk meets
            while bytes.len() < len {
                bytes.extend_from_slice(&[6, 0, 0, 0, 8, 0, 0, 0]);
            }
        }
        let n = len.max(16).min(bytes.len());
        let mem = bytes[..n].to_vec();
        ctx.case_desc = Some(J::obj(vec![("corruptions", J::s(labels.join(" "))), ("header", J::S(hex_trunc(&mem, 320)))]));
        // the premise of C09: every tag the walk can reach has defined enum values.
        // A corrupted size can make the walk land inside payload bytes: such inputs are
        // outside the property's premise and are skipped (counted).
        if !premise_holds(&mem) {
            ctx.count("skipped:walk-reaches-undefined-enum-values");
            return;
        }
        let reg = if mix(idx) % 16 == 5 { Region::new_left(ctx.placement, &mem) } else { Region::new(ctx.placement, &mem) };
        ctx.eval();
        let r = catch(|| unsafe { Multiboot2Header::load(reg.ptr().cast::<Multiboot2BasicHeader>()) });
        match r {
            Out::Panic(site) => ctx.count(&format!("load:Panic@{}", site)),
            Out::Val(Err(e)) => ctx.count(&format!("load:Err({:?})", e)),
            Out::Val(Ok(h)) => {
                ctx.count("load:Ok");
                let opts = Opts { debug: !cfg!(miri) || mix(idx) % 4 < 2, debug_whole: true, strict_extent: false };
                let mut tr = Tr::new(false, false);
                let before = ctx.counters.iter().filter(|(k, _)| k.starts_with("accessors:")).map(|(_, v)| *v).sum::<u64>();
                exercise_hdr::header(ctx, &reg, &mut tr, &opts, &h, &mem);
                let after = ctx.counters.iter().filter(|(k, _)| k.starts_with("accessors:")).map(|(_, v)| *v).sum::<u64>();
                if after > before {
                    ctx.nontrivial(hash_bytes(&mem));
                }
            }
        }
        if ctx.want_sample() && mix(idx) % 11 == 3 {
            let d = ctx.case_desc.clone().unwrap();
            ctx.sample(d);
        }
    }
}

/// Does every tag header the spec walk visits (including the one it stops at)
/// hold defined type (0..=10) and flags (0..=1) values, and every console /
/// relocatable tag a defined flags / preference word?
pub fn premise_holds(mem: &[u8]) -> bool {
    let arch = le32(mem, 4);
    if arch != 0 && arch != 4 {
        return false;
    }
    let len = le32(mem, 8) as usize;
    if len < 16 || len % 8 != 0 || len > mem.len() {
        return true; // load fails before any tag is looked at
    }
    let mut off = 16;
    while off + 8 <= len {
        let typ = le16(mem, off);
        let flags = le16(mem, off + 2);
        let size = le32(mem, off + 4) as usize;
        if typ > 10 || flags > 1 {
            return false;
        }
        if size < 8 || off + round8(size) > len {
            return true; // the walk is rejected here
        }
        if typ == H_CONSOLE && size >= 12 && le32(mem, off + 8) > 1 {
            return false;
        }
        if typ == H_RELOC && size >= 24 && le32(mem, off + 20) > 2 {
            return false;
        }
        off += round8(size);
    }
    true
}
