//! C03 — tag iteration reproduces the specification's walk, zero-copy.

use super::Driver;
use crate::region::Region;
use crate::spec::{walk, TagAt, WalkEnd};
use crate::util::*;
use multiboot2::{BootInformation, BootInformationHeader, TagHeader, TagIter};
use multiboot2_common::DynSizedStructure;

pub struct C03 {
    /// memo: count_loaded[rem/8], count_direct[rem/8]
    cl: Vec<u64>,
    cd: Vec<u64>,
}

type Item<'a> = &'a DynSizedStructure<TagHeader>;

fn max_area(ctx: &Ctx) -> usize {
    match ctx.tier {
        Tier::Quick => 48,
        Tier::Thorough => 72,
    }
}

impl C03 {
    pub fn new() -> Self {
        let n = 16;
        // loaded: the last 8 bytes are a forced end tag
        let mut cl = vec![0u64; n];
        let mut cd = vec![0u64; n];
        cd[0] = 1;
        cl[1] = 1;
        for k in 1..n {
            let rem = k * 8;
            let mut s_d = 0u64;
            let mut s_l = 0u64;
            for s in 0..=rem + 9 {
                let r = round8(s);
                if s < 8 || r > rem {
                    s_d += 1;
                    s_l += 1;
                } else {
                    s_d += cd[(rem - r) / 8];
                    s_l += if r == rem { 1 } else { cl[(rem - r) / 8] };
                }
            }
            cd[k] = s_d;
            if k > 1 {
                cl[k] = s_l;
            }
        }
        C03 { cl, cd }
    }

    /// unrank leaf `k` of the size tree over an area of `area` bytes
    fn unrank(&self, loaded: bool, area: usize, mut k: u64) -> Vec<u32> {
        let mut sizes = vec![];
        let mut rem = area;
        loop {
            if rem == 0 {
                return sizes;
            }
            if loaded && rem == 8 {
                sizes.push(8);
                return sizes;
            }
            let mut chosen = None;
            for s in 0..=rem + 9 {
                let r = round8(s);
                let c = if s < 8 || r > rem {
                    1
                } else if loaded && r == rem {
                    1
                } else if loaded {
                    self.cl[(rem - r) / 8]
                } else {
                    self.cd[(rem - r) / 8]
                };
                if k < c {
                    chosen = Some(s);
                    break;
                }
                k -= c;
            }
            let s = chosen.expect("rank in range");
            sizes.push(s as u32);
            let r = round8(s);
            if s < 8 || r > rem {
                return sizes;
            }
            rem -= r;
        }
    }

    fn tree_cases(&self, ctx: &Ctx) -> Vec<(bool, usize, u64)> {
        // (loaded?, area, count)
        let mut v = vec![];
        let m = max_area(ctx);
        let mut a = 8;
        while a <= m {
            v.push((false, a, self.cd[a / 8]));
            if a >= 16 {
                v.push((true, a, self.cl[a / 8]));
            }
            a += 8;
        }
        v
    }
}

/// Builds the area bytes for a size sequence (each tag's declared size as
/// given; types random incl. 0 and 3; filler bytes are non-zero markers).
fn build_area(rng: &mut Rng, sizes: &[u32], area: usize, loaded: bool) -> Vec<u8> {
    let mut b = rng.marker_bytes(area);
    let mut off = 0usize;
    for (i, &s) in sizes.iter().enumerate() {
        if off + 8 > area {
            break;
        }
        let forced_end = loaded && off == area - 8;
        let typ = if forced_end {
            0
        } else {
            match rng.below(7) {
                0 => 3,
                1 => 0,
                2 => rng.u32(),
                // types that share their low 16 bits (or low byte) with the module / end type
                3 => *rng.pick(&[0x0001_0003u32, 0x8001_0003, 0x0003_0000, 0x0000_0103, 0x0001_0000, 0xffff_0003, 0x0300_0000]),
                _ => rng.below(30) as u32,
            }
        };
        put32(&mut b, off, typ);
        put32(&mut b, off + 4, if forced_end { 8 } else { s });
        let _ = i;
        off += round8(s as usize);
    }
    if loaded {
        put32(&mut b, area - 8, 0);
        put32(&mut b, area - 4, 8);
    }
    b
}

fn check_item(ctx: &mut Ctx, reg: &Region, base_off: usize, it: Item, exp: &TagAt, what: &str) -> bool {
    let addr = it as *const _ as *const u8 as usize;
    let exp_addr = reg.addr() + base_off + exp.off;
    let h = it.header();
    let typ: u32 = h.typ.into();
    let mut ok = true;
    let mut bad = |ctx: &mut Ctx, sig: &str, msg: String| {
        ctx.violation(
            &format!("{}:{}", what, sig),
            J::obj(vec![("what", J::s(msg)), ("expected_tag", J::s(format!("{:?}", exp)))]),
        );
        ok = false;
    };
    if addr != exp_addr {
        bad(ctx, "item-address", format!("item at region offset {} but the walk puts it at {}", reg.off_of(addr), base_off + exp.off));
    }
    if typ != exp.word0 || h.size != exp.size {
        bad(ctx, "item-header", format!("item reports type {} size {}", typ, h.size));
    }
    let p = it.payload();
    if p.len() != exp.size as usize - 8 || p.as_ptr() as usize != exp_addr + 8 {
        bad(ctx, "item-payload", format!("payload len {} at +{}", p.len(), p.as_ptr() as usize as i64 - exp_addr as i64));
    }
    if core::mem::size_of_val(it) != round8(exp.size as usize) {
        bad(ctx, "item-size_of_val", format!("size_of_val {}", core::mem::size_of_val(it)));
    }
    // M2 containment + M3 touch
    if !reg.contains(addr, core::mem::size_of_val(it)) {
        bad(ctx, "item-outside-region", "item extent leaves the region".into());
    } else {
        touch(p);
    }
    ok
}

/// Full walk with a fresh iterator; compares against the reference walk.
/// Returns false if a violation was recorded.
fn full_walk<'a>(
    ctx: &mut Ctx,
    reg: &Region,
    base_off: usize,
    mut iter: TagIter<'a>,
    exp: &[TagAt],
    end: WalkEnd,
    what: &str,
) -> bool {
    let mut i = 0usize;
    loop {
        // M5: logical step bound
        if i > exp.len() + 2 {
            ctx.violation(&format!("{}:too-many-items", what), J::s("iterator yields more items than the area can hold"));
            return false;
        }
        let r = catch(|| iter.next());
        match r {
            Out::Val(Some(it)) => {
                if i >= exp.len() {
                    ctx.violation(
                        &format!("{}:value-where-walk-ends:{:?}", what, kind(end)),
                        J::s(format!("item #{} returned but the reference walk ends ({:?}) after {} tags", i, end, exp.len())),
                    );
                    return false;
                }
                if !check_item(ctx, reg, base_off, it, &exp[i], what) {
                    return false;
                }
                i += 1;
            }
            Out::Val(None) => {
                if i != exp.len() || end != WalkEnd::Complete {
                    ctx.violation(
                        &format!("{}:early-none:{:?}", what, kind(end)),
                        J::s(format!("None after {} items; reference: {} tags then {:?}", i, exp.len(), end)),
                    );
                    return false;
                }
                // stays exhausted
                for _ in 0..3 {
                    match catch(|| iter.next()) {
                        Out::Val(None) => {}
                        o => {
                            ctx.violation(&format!("{}:not-fused", what), J::s(format!("after None: {:?}", o.is_panic())));
                            return false;
                        }
                    }
                }
                ctx.count(&format!("{}:walk-complete", what));
                return true;
            }
            Out::Panic(site) => {
                if i != exp.len() || end == WalkEnd::Complete {
                    ctx.violation(
                        &format!("{}:unexpected-panic@{}", what, site),
                        J::s(format!("panic after {} items; reference: {} tags then {:?}", i, exp.len(), end)),
                    );
                    return false;
                }
                ctx.count(&format!("{}:walk-panic:{:?}@{}", what, kind(end), site));
                // the iterator's state is unspecified now, but further next() calls are
                // still safe calls: no read outside the region, items inside the region
                for _ in 0..2 {
                    if let Out::Val(Some(it2)) = catch(|| iter.next()) {
                        let a = it2 as *const _ as *const u8 as usize;
                        if !reg.contains(a, core::mem::size_of_val(it2)) {
                            ctx.violation(&format!("{}:item-after-panic-outside-region", what), J::s(format!("item at region offset {}", reg.off_of(a))));
                            return false;
                        }
                        touch(it2.payload());
                    }
                }
                return true;
            }
        }
    }
}

fn kind(e: WalkEnd) -> &'static str {
    match e {
        WalkEnd::Complete => "complete",
        WalkEnd::SizeBelow8 { .. } => "size<8",
        WalkEnd::Leaves { .. } => "leaves-region",
    }
}

impl C03 {
    fn run_area(&self, ctx: &mut Ctx, area_bytes: &[u8], loaded: bool, label: &str, histories: bool) {
        let area = area_bytes.len();
        ctx.eval();
        if loaded {
            let mut mem = vec![0u8; 8];
            mem.extend_from_slice(area_bytes);
            let n = mem.len() as u32;
            put32(&mut mem, 0, n);
            let (exp, end) = walk(&mem, 8, mem.len());
            let reg = Region::new(ctx.placement, &mem);
            let bi = match catch(|| unsafe { BootInformation::load(reg.ptr().cast::<BootInformationHeader>()) }) {
                Out::Val(Ok(b)) => b,
                o => {
                    ctx.violation("load-failed", J::s(format!("well-terminated region did not load: panic={}", o.is_panic())));
                    return;
                }
            };
            ctx.count("loaded");
            let ok = full_walk(ctx, &reg, 0, bi.tags(), &exp, end, "tags");
            // repeatable with a fresh iterator
            if ok {
                full_walk(ctx, &reg, 0, bi.tags(), &exp, end, "tags(fresh)");
            }
            if ok && end == WalkEnd::Complete {
                // M6b: count/last/nth/skip/step_by/size_hint agree with the next() sequence
                let key = |t: &multiboot2_common::DynSizedStructure<multiboot2::TagHeader>| (t as *const _ as *const u8 as usize, core::mem::size_of_val(t));
                crate::iterproto::check(ctx, "tags", &|| bi.tags(), &key, 4096, true);
                crate::iterproto::check_clone(ctx, "tags", &|| bi.tags(), &key, 4096);
                if exp.iter().all(|t| t.word0 != 3 || t.size >= 16) {
                    crate::iterproto::check(ctx, "module_tags", &|| bi.module_tags(), &|m: &multiboot2::ModuleTag| (m as *const _ as *const u8 as usize, core::mem::size_of_val(m)), 4096, true);
                    crate::iterproto::check_clone(ctx, "module_tags", &|| bi.module_tags(), &|m: &multiboot2::ModuleTag| (m as *const _ as *const u8 as usize, core::mem::size_of_val(m)), 4096);
                }
            }
            // module iterator = the type-3 sub-sequence, by address
            self.modules(ctx, &reg, &bi, &exp, end);
            if histories {
                self.history(ctx, &reg, &bi, &exp, end);
            }
            self.note(ctx, &exp, end, &mem, label);
        } else {
            let (exp, end) = walk(area_bytes, 0, area);
            let reg = Region::new(ctx.placement, area_bytes);
            let sl = reg.as_slice();
            let it = TagIter::new(sl);
            let ok = full_walk(ctx, &reg, 0, it, &exp, end, "TagIter");
            if ok && end == WalkEnd::Complete {
                let key = |t: &multiboot2_common::DynSizedStructure<multiboot2::TagHeader>| (t as *const _ as *const u8 as usize, core::mem::size_of_val(t));
                crate::iterproto::check(ctx, "TagIter", &|| TagIter::new(sl), &key, 4096, true);
                crate::iterproto::check_clone(ctx, "TagIter", &|| TagIter::new(sl), &key, 4096);
            }
            self.note(ctx, &exp, end, area_bytes, label);
        }
    }

    fn note(&self, ctx: &mut Ctx, exp: &[TagAt], end: WalkEnd, mem: &[u8], label: &str) {
        if exp.len() >= 2 || end != WalkEnd::Complete {
            let mut h = hash_bytes(label.as_bytes());
            for t in exp {
                h = mix2(h, (t.size as u64) << 32 | t.word0 as u64);
            }
            h = mix2(h, kind(end).len() as u64);
            if end != WalkEnd::Complete {
                // the offending size is part of the case identity
                let off = match end {
                    WalkEnd::SizeBelow8 { off } | WalkEnd::Leaves { off } => off,
                    _ => 0,
                };
                h = mix2(h, le32(mem, off + 4) as u64);
            }
            ctx.nontrivial(h);
        }
        if ctx.want_sample() && (ctx.case % 7 == 3) {
            ctx.sample(J::obj(vec![
                ("kind", J::s(label)),
                ("bytes", J::S(hex_trunc(mem, 96))),
                ("reference_walk", J::s(format!("{:?} then {:?}", exp.iter().map(|t| (t.off, t.word0, t.size)).collect::<Vec<_>>(), end))),
            ]));
        }
    }

    fn modules(&self, ctx: &mut Ctx, reg: &Region, bi: &BootInformation, exp: &[TagAt], end: WalkEnd) {
        // expected: addresses of type-3 tags in order; a type-3 tag smaller than
        // its fixed part (16) cannot be viewed as a module -> panic there.
        let mut it = bi.module_tags();
        let mut n = 0;
        // a clone taken after the first module continues with the same modules
        let mut cloned: Option<(multiboot2::ModuleIter, usize)> = None;
        for t in exp.iter().filter(|t| t.word0 == 3) {
            if n == 1 && cloned.is_none() {
                cloned = Some((it.clone(), 1));
            }
            let r = catch(|| it.next());
            if t.size < 16 {
                match r {
                    Out::Panic(_) => {
                        ctx.count("modules:panic-on-undersized-module");
                        return;
                    }
                    Out::Val(v) => {
                        ctx.violation("modules:undersized-module-yielded", J::s(format!("type-3 tag of size {} at {} -> {:?}", t.size, t.off, v.map(|m| m as *const _ as *const u8 as usize - reg.addr()))));
                        return;
                    }
                }
            }
            match r {
                Out::Val(Some(m)) => {
                    let a = m as *const _ as *const u8 as usize;
                    if a != reg.addr() + t.off || core::mem::size_of_val(m) != round8(t.size as usize) {
                        ctx.violation("modules:wrong-item", J::s(format!("module #{} at offset {} (size_of_val {}), expected offset {}", n, reg.off_of(a), core::mem::size_of_val(m), t.off)));
                        return;
                    }
                    n += 1;
                }
                Out::Val(None) => {
                    ctx.violation("modules:missing", J::s(format!("module iterator ended after {} items; type-3 tag at {}", n, t.off)));
                    return;
                }
                Out::Panic(site) => {
                    ctx.violation(&format!("modules:panic@{}", site), J::s(format!("panic before module at {}", t.off)));
                    return;
                }
            }
        }
        // after the last module: None if the walk completes, panic otherwise
        match (catch(|| it.next()), end) {
            (Out::Val(None), WalkEnd::Complete) => ctx.count("modules:complete"),
            (Out::Panic(_), e) if e != WalkEnd::Complete => ctx.count("modules:walk-panic"),
            (o, e) => ctx.violation(
                "modules:tail",
                J::s(format!("after {} modules: panic={} some={} but walk end {:?}", n, o.is_panic(), matches!(o, Out::Val(Some(_))), e)),
            ),
        }
        ctx.count_n("modules:yielded", n);
        if let (Some((mut c, from)), WalkEnd::Complete) = (cloned, end) {
            let want: Vec<usize> = exp.iter().filter(|t| t.word0 == 3 && t.size >= 16).skip(from).map(|t| t.off).collect();
            let all_ok = exp.iter().filter(|t| t.word0 == 3).all(|t| t.size >= 16);
            if all_ok {
                let got = catch(|| c.by_ref().map(|m| m as *const _ as *const u8 as usize - reg.addr()).collect::<Vec<_>>());
                if got != Out::Val(want.clone()) {
                    ctx.violation("modules:clone-diverges", J::s(format!("clone yields {:?}, expected offsets {:?}", got, want)));
                }
                ctx.count("modules:clone-checked");
            }
        }
    }

    /// M6: random interleavings of next()/clone()/fresh over <= 4 iterators,
    /// stepped against an index into the reference walk.
    fn history(&self, ctx: &mut Ctx, reg: &Region, bi: &BootInformation, exp: &[TagAt], end: WalkEnd) {
        #[derive(Clone, Copy, PartialEq)]
        enum St {
            At(usize),
            Done,
            Retired,
        }
        let mut iters: Vec<(TagIter, St)> = vec![(bi.tags(), St::At(0))];
        let nops = 8 + ctx.rng.below(32);
        let mut hist = String::new();
        for _ in 0..nops {
            let k = ctx.rng.below(iters.len() as u64) as usize;
            match ctx.rng.below(6) {
                0 if iters.len() < 4 => {
                    if iters[k].1 != St::Retired {
                        let c = (iters[k].0.clone(), iters[k].1);
                        iters.push(c);
                        hist.push_str(&format!("c{} ", k));
                    }
                }
                1 if iters.len() < 4 => {
                    iters.push((bi.tags(), St::At(0)));
                    hist.push_str("f ");
                }
                _ => {
                    let st = iters[k].1;
                    if st == St::Retired {
                        continue;
                    }
                    hist.push_str(&format!("n{} ", k));
                    let r = catch(|| iters[k].0.next());
                    ctx.count("history:next");
                    let pos = match st {
                        St::At(p) => p,
                        _ => exp.len(),
                    };
                    let fail = |ctx: &mut Ctx, msg: String| {
                        ctx.violation("history:diverges", J::obj(vec![("ops", J::s(hist.clone())), ("what", J::s(msg))]));
                    };
                    if st == St::Done {
                        if !matches!(r, Out::Val(None)) {
                            fail(ctx, "Some/panic after None".into());
                            return;
                        }
                        continue;
                    }
                    if pos < exp.len() {
                        match r {
                            Out::Val(Some(it)) => {
                                if !check_item(ctx, reg, 0, it, &exp[pos], "history") {
                                    return;
                                }
                                iters[k].1 = St::At(pos + 1);
                            }
                            o => {
                                fail(ctx, format!("iterator {} at position {}: expected tag at {}, got panic={} none={}", k, pos, exp[pos].off, o.is_panic(), !o.is_panic()));
                                return;
                            }
                        }
                    } else {
                        match (r, end) {
                            (Out::Val(None), WalkEnd::Complete) => iters[k].1 = St::Done,
                            (Out::Panic(_), e) if e != WalkEnd::Complete => iters[k].1 = St::Retired,
                            (o, e) => {
                                fail(ctx, format!("iterator {} at end: panic={} but reference end {:?}", k, o.is_panic(), e));
                                return;
                            }
                        }
                    }
                }
            }
        }
        ctx.count("history:checked");
    }
}

impl Driver for C03 {
    fn ncases(&self, ctx: &Ctx) -> u64 {
        let tree: u64 = self.tree_cases(ctx).iter().map(|x| x.2).sum();
        let random = match ctx.tier {
            Tier::Quick => 20_000,
            Tier::Thorough => 400_000,
        };
        tree + random
    }

    fn run_case(&mut self, ctx: &mut Ctx, idx: u64) {
        let mut k = idx;
        for (loaded, area, cnt) in self.tree_cases(ctx) {
            if k < cnt {
                let sizes = self.unrank(loaded, area, k);
                let bytes = build_area(&mut ctx.rng, &sizes, area, loaded);
                ctx.case_desc = Some(J::obj(vec![
                    ("sub", J::s("size-tree")),
                    ("loaded", J::B(loaded)),
                    ("area", J::u(area as u64)),
                    ("sizes", J::s(format!("{:?}", sizes))),
                    ("area_hex", J::hex(&bytes)),
                ]));
                let hist = loaded && ctx.rng.chance(1, 4);
                self.run_area(ctx, &bytes, loaded, if loaded { "tree/loaded" } else { "tree/direct" }, hist);
                ctx.count(if loaded { "tree:loaded" } else { "tree:direct" });
                return;
            }
            k -= cnt;
        }
        // random longer walks (<= 64 tags), always loaded, with histories
        let ntags = 1 + ctx.rng.below(64) as usize;
        let mut sizes = vec![];
        let mut area = 0usize;
        for _ in 0..ntags {
            let s = 8 + ctx.rng.below(57) as u32;
            area += round8(s as usize);
            sizes.push(s);
        }
        area += 8;
        sizes.push(8);
        // corrupt one size sometimes
        if ctx.rng.chance(1, 3) {
            let i = ctx.rng.below(ntags as u64) as usize;
            sizes[i] = match ctx.rng.below(5) {
                0 => ctx.rng.below(8) as u32,
                1 => 0xffff_ffff,
                2 => area as u32,
                3 => sizes[i] ^ 8,
                _ => ctx.rng.u32_edge(),
            };
        }
        // tags are laid out following the declared sizes up to the first
        // impossible one; the rest of the area keeps marker bytes
        let mut b = ctx.rng.marker_bytes(area);
        let mut rng2 = ctx.rng.clone();
        let mut o = 0usize;
        for (i, &s) in sizes.iter().enumerate() {
            if o + 8 > area {
                break;
            }
            let last = i == sizes.len() - 1;
            put32(&mut b, o, if last { 0 } else if rng2.chance(1, 5) { 3 } else { rng2.below(40) as u32 });
            put32(&mut b, o + 4, s);
            let adv = round8(s as usize);
            if s < 8 || o + adv > area {
                break;
            }
            o += adv;
        }
        put32(&mut b, area - 8, 0);
        put32(&mut b, area - 4, 8);
        ctx.case_desc = Some(J::obj(vec![("sub", J::s("random-walk")), ("sizes", J::s(format!("{:?}", sizes))), ("area_hex", J::S(hex_trunc(&b, 256)))]));
        self.run_area(ctx, &b, true, "random", true);
        ctx.count("random-walks");
    }
}
