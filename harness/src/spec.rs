//! M1: independent reference codec, written from the Multiboot2 specification
//! (version 2.0) and GRUB's multiboot2.h. Safe Rust, slice indexing only; it
//! never uses the crates' types.

use crate::util::{le16, le32, le64, put32, round8};

// ------------------------------------------------------------ constants ----

pub const MBI_MAGIC: u32 = 0x36d7_6289;
pub const HDR_MAGIC: u32 = 0xe852_50d6;

pub const T_END: u32 = 0;
pub const T_CMDLINE: u32 = 1;
pub const T_LOADER: u32 = 2;
pub const T_MODULE: u32 = 3;
pub const T_MEMINFO: u32 = 4;
pub const T_BOOTDEV: u32 = 5;
pub const T_MMAP: u32 = 6;
pub const T_VBE: u32 = 7;
pub const T_FB: u32 = 8;
pub const T_ELF: u32 = 9;
pub const T_APM: u32 = 10;
pub const T_EFI32: u32 = 11;
pub const T_EFI64: u32 = 12;
pub const T_SMBIOS: u32 = 13;
pub const T_ACPI1: u32 = 14;
pub const T_ACPI2: u32 = 15;
pub const T_NET: u32 = 16;
pub const T_EFIMMAP: u32 = 17;
pub const T_EFIBS: u32 = 18;
pub const T_EFI32IH: u32 = 19;
pub const T_EFI64IH: u32 = 20;
pub const T_LOADBASE: u32 = 21;

/// (type, fixed part incl. the 8-byte tag header, element size of the variable
/// part or 0 if the kind is fixed-size)
pub const MBI_KINDS: &[(u32, usize, usize, &str)] = &[
    (T_END, 8, 0, "end"),
    (T_CMDLINE, 8, 1, "cmdline"),
    (T_LOADER, 8, 1, "loader"),
    (T_MODULE, 16, 1, "module"),
    (T_MEMINFO, 16, 0, "meminfo"),
    (T_BOOTDEV, 20, 0, "bootdev"),
    (T_MMAP, 16, 24, "mmap"),
    (T_VBE, 784, 0, "vbe"),
    (T_FB, 32, 1, "framebuffer"),
    (T_ELF, 20, 1, "elf"),
    (T_APM, 28, 0, "apm"),
    (T_EFI32, 12, 0, "efi32"),
    (T_EFI64, 16, 0, "efi64"),
    (T_SMBIOS, 16, 1, "smbios"),
    (T_ACPI1, 28, 0, "acpi1"),
    (T_ACPI2, 44, 0, "acpi2"),
    (T_NET, 8, 1, "network"),
    (T_EFIMMAP, 16, 1, "efi_mmap"),
    (T_EFIBS, 8, 0, "efi_bs"),
    (T_EFI32IH, 12, 0, "efi32_ih"),
    (T_EFI64IH, 16, 0, "efi64_ih"),
    (T_LOADBASE, 12, 0, "load_base"),
];

pub fn mbi_kind(typ: u32) -> Option<(usize, usize, &'static str)> {
    MBI_KINDS
        .iter()
        .find(|k| k.0 == typ)
        .map(|k| (k.1, k.2, k.3))
}

/// In-memory size of the typed view of a fixed-size kind (its Rust struct),
/// None for kinds with a variable-length tail.
pub fn sized_view_size(typ: u32) -> Option<usize> {
    mbi_kind(typ).and_then(|(fixed, elem, _)| if elem == 0 { Some((fixed + 7) & !7) } else { None })
}

pub const H_END: u16 = 0;
pub const H_INFOREQ: u16 = 1;
pub const H_ADDRESS: u16 = 2;
pub const H_ENTRY: u16 = 3;
pub const H_CONSOLE: u16 = 4;
pub const H_FB: u16 = 5;
pub const H_MODALIGN: u16 = 6;
pub const H_EFIBS: u16 = 7;
pub const H_ENTRY_EFI32: u16 = 8;
pub const H_ENTRY_EFI64: u16 = 9;
pub const H_RELOC: u16 = 10;

/// (type, fixed size, element size, name) of the 11 header-tag kinds
pub const HDR_KINDS: &[(u16, usize, usize, &str)] = &[
    (H_END, 8, 0, "end"),
    (H_INFOREQ, 8, 4, "information_request"),
    (H_ADDRESS, 24, 0, "address"),
    (H_ENTRY, 12, 0, "entry_address"),
    (H_CONSOLE, 12, 0, "console_flags"),
    (H_FB, 20, 0, "framebuffer"),
    (H_MODALIGN, 8, 0, "module_align"),
    (H_EFIBS, 8, 0, "efi_bs"),
    (H_ENTRY_EFI32, 12, 0, "entry_efi32"),
    (H_ENTRY_EFI64, 12, 0, "entry_efi64"),
    (H_RELOC, 24, 0, "relocatable"),
];

// ------------------------------------------------------- load verdicts ----

#[derive(Clone, Copy, Debug, PartialEq, Eq)]
pub enum Verdict {
    ShorterThanHeader,
    MissingPadding,
    NoEndTag,
    MagicNotFound,
    ChecksumMismatch,
    Ok,
}

/// Reference verdict for loading a boot information from a non-null, aligned
/// pointer; `mem` holds at least max(total_size, 8) bytes.
pub fn mbi_verdict(mem: &[u8]) -> Verdict {
    let ts = le32(mem, 0) as usize;
    if ts < 8 {
        return Verdict::ShorterThanHeader;
    }
    if ts % 8 != 0 {
        return Verdict::MissingPadding;
    }
    let last = &mem[ts - 8..ts];
    if le32(last, 0) == 0 && le32(last, 4) == 8 {
        Verdict::Ok
    } else {
        Verdict::NoEndTag
    }
}

pub fn checksum(magic: u32, arch: u32, length: u32) -> u32 {
    0u32.wrapping_sub(magic).wrapping_sub(arch).wrapping_sub(length)
}

/// Reference verdict for loading a header; `mem` holds at least
/// max(length, 16) bytes.
pub fn hdr_verdict(mem: &[u8]) -> Verdict {
    let magic = le32(mem, 0);
    let arch = le32(mem, 4);
    let length = le32(mem, 8);
    let chk = le32(mem, 12);
    if length < 16 {
        return Verdict::ShorterThanHeader;
    }
    if length % 8 != 0 {
        return Verdict::MissingPadding;
    }
    if magic != HDR_MAGIC {
        return Verdict::MagicNotFound;
    }
    if magic
        .wrapping_add(arch)
        .wrapping_add(length)
        .wrapping_add(chk)
        != 0
    {
        return Verdict::ChecksumMismatch;
    }
    Verdict::Ok
}

// ------------------------------------------------------------------ walk ----

#[derive(Clone, Copy, Debug, PartialEq, Eq)]
pub struct TagAt {
    /// offset of the tag header relative to the start of the structure
    pub off: usize,
    /// first 32-bit word (MBI: type; header: type u16 | flags u16 << 16)
    pub word0: u32,
    pub size: u32,
}

impl TagAt {
    pub fn htyp(&self) -> u16 {
        self.word0 as u16
    }
    pub fn hflags(&self) -> u16 {
        (self.word0 >> 16) as u16
    }
    pub fn end(&self) -> usize {
        self.off + self.size as usize
    }
    pub fn padded_end(&self) -> usize {
        self.off + round8(self.size as usize)
    }
}

#[derive(Clone, Copy, Debug, PartialEq, Eq)]
pub enum WalkEnd {
    /// reached `end` exactly
    Complete,
    /// tag at `off` declares a size < 8
    SizeBelow8 { off: usize },
    /// tag at `off` (rounded up) leaves the structure
    Leaves { off: usize },
}

/// The specification's walk over `mem[start..end]`: a tag at `start`, each next
/// one at previous offset + size rounded up to 8, until `end`.
/// `start`, `end` multiples of 8.
pub fn walk(mem: &[u8], start: usize, end: usize) -> (Vec<TagAt>, WalkEnd) {
    let mut v = Vec::new();
    let mut off = start;
    loop {
        if off == end {
            return (v, WalkEnd::Complete);
        }
        debug_assert!(off + 8 <= end);
        let word0 = le32(mem, off);
        let size = le32(mem, off + 4);
        if size < 8 {
            return (v, WalkEnd::SizeBelow8 { off });
        }
        let next = (off as u64 + size as u64 + 7) & !7;
        if next > end as u64 {
            return (v, WalkEnd::Leaves { off });
        }
        v.push(TagAt { off, word0, size });
        off = next as usize;
    }
}

// --------------------------------------------------------------- strings ----

#[derive(Clone, Debug, PartialEq, Eq)]
pub enum StrRes<'a> {
    Ok(&'a [u8]),
    MissingNul,
    Utf8,
}

/// The text of a string tag: the bytes before the first NUL *inside the
/// declared size*, if valid UTF-8.
pub fn parse_str(content: &[u8]) -> StrRes<'_> {
    match content.iter().position(|&b| b == 0) {
        None => StrRes::MissingNul,
        Some(n) => {
            if std::str::from_utf8(&content[..n]).is_ok() {
                StrRes::Ok(&content[..n])
            } else {
                StrRes::Utf8
            }
        }
    }
}

// ------------------------------------------------------------ MBI builder ----

/// Assembles a boot information from (type, body) pairs with the harness' own
/// encoder. Padding is filled with a non-zero marker.
#[derive(Clone)]
pub struct MbiBuf {
    pub bytes: Vec<u8>,
    /// (offset, type, size) of each tag pushed
    pub tags: Vec<TagAt>,
}

pub const PAD: u8 = 0xEE;

impl MbiBuf {
    pub fn new() -> Self {
        MbiBuf {
            bytes: vec![0; 8],
            tags: vec![],
        }
    }
    pub fn push(&mut self, typ: u32, body: &[u8]) -> usize {
        let off = self.bytes.len();
        let size = 8 + body.len();
        self.bytes.extend_from_slice(&typ.to_le_bytes());
        self.bytes.extend_from_slice(&(size as u32).to_le_bytes());
        self.bytes.extend_from_slice(body);
        while self.bytes.len() % 8 != 0 {
            self.bytes.push(PAD);
        }
        self.tags.push(TagAt {
            off,
            word0: typ,
            size: size as u32,
        });
        off
    }
    /// push raw tag bytes (header included) with an explicit declared size
    pub fn push_raw(&mut self, raw: &[u8]) -> usize {
        let off = self.bytes.len();
        self.bytes.extend_from_slice(raw);
        while self.bytes.len() % 8 != 0 {
            self.bytes.push(PAD);
        }
        self.tags.push(TagAt {
            off,
            word0: le32(raw, 0),
            size: le32(raw, 4),
        });
        off
    }
    pub fn finish(mut self) -> Vec<u8> {
        self.push(T_END, &[]);
        let n = self.bytes.len() as u32;
        put32(&mut self.bytes, 0, n);
        self.bytes
    }
    pub fn finish_keep(mut self) -> (Vec<u8>, Vec<TagAt>) {
        self.push(T_END, &[]);
        let n = self.bytes.len() as u32;
        put32(&mut self.bytes, 0, n);
        (self.bytes, self.tags)
    }
}

/// Same for Multiboot2 headers.
#[derive(Clone)]
pub struct HdrBuf {
    pub bytes: Vec<u8>,
    pub tags: Vec<TagAt>,
    pub arch: u32,
}

impl HdrBuf {
    pub fn new(arch: u32) -> Self {
        HdrBuf {
            bytes: vec![0; 16],
            tags: vec![],
            arch,
        }
    }
    pub fn push(&mut self, typ: u16, flags: u16, body: &[u8]) -> usize {
        let off = self.bytes.len();
        let size = 8 + body.len();
        self.bytes.extend_from_slice(&typ.to_le_bytes());
        self.bytes.extend_from_slice(&flags.to_le_bytes());
        self.bytes.extend_from_slice(&(size as u32).to_le_bytes());
        self.bytes.extend_from_slice(body);
        while self.bytes.len() % 8 != 0 {
            self.bytes.push(PAD);
        }
        self.tags.push(TagAt {
            off,
            word0: typ as u32 | (flags as u32) << 16,
            size: size as u32,
        });
        off
    }
    /// finishes without adding an end tag (caller decides)
    pub fn finish(mut self) -> (Vec<u8>, Vec<TagAt>) {
        let n = self.bytes.len() as u32;
        put32(&mut self.bytes, 0, HDR_MAGIC);
        let arch = self.arch;
        put32(&mut self.bytes, 4, arch);
        put32(&mut self.bytes, 8, n);
        put32(&mut self.bytes, 12, checksum(HDR_MAGIC, arch, n));
        (self.bytes, self.tags)
    }
}

// --------------------------------------------------------- ELF sections ----

#[derive(Clone, Copy, Debug, PartialEq, Eq)]
pub enum ElfClass {
    Unused,
    Program,
    SymTab,
    StrTab,
    Rela,
    Hash,
    Dynamic,
    Note,
    NoBits,
    Rel,
    Reserved,
    DynSym,
    EnvSpecific,
    ProcSpecific,
}

/// Documented classification of a raw ELF section type.
pub fn elf_class(raw: u32) -> ElfClass {
    match raw {
        0 => ElfClass::Unused,
        1 => ElfClass::Program,
        2 => ElfClass::SymTab,
        3 => ElfClass::StrTab,
        4 => ElfClass::Rela,
        5 => ElfClass::Hash,
        6 => ElfClass::Dynamic,
        7 => ElfClass::Note,
        8 => ElfClass::NoBits,
        9 => ElfClass::Rel,
        10 => ElfClass::Reserved,
        11 => ElfClass::DynSym,
        0x6000_0000..=0x6fff_ffff => ElfClass::EnvSpecific,
        0x7000_0000..=0x7fff_ffff => ElfClass::ProcSpecific,
        _ => ElfClass::Unused,
    }
}

#[derive(Clone, Copy, Debug, PartialEq, Eq)]
pub struct ElfEnt {
    pub name_index: u32,
    pub typ: u32,
    pub flags: u64,
    pub addr: u64,
    pub size: u64,
    pub addralign: u64,
}

/// decode one section header from the ELF32 (40 bytes) / ELF64 (64 bytes) layout
pub fn elf_decode(ent: &[u8], entsize: usize) -> ElfEnt {
    if entsize == 40 {
        ElfEnt {
            name_index: le32(ent, 0),
            typ: le32(ent, 4),
            flags: le32(ent, 8) as u64,
            addr: le32(ent, 12) as u64,
            size: le32(ent, 20) as u64,
            addralign: le32(ent, 32) as u64,
        }
    } else {
        assert_eq!(entsize, 64);
        ElfEnt {
            name_index: le32(ent, 0),
            typ: le32(ent, 4),
            flags: le64(ent, 8),
            addr: le64(ent, 16),
            size: le64(ent, 32),
            addralign: le64(ent, 48),
        }
    }
}

// -------------------------------------------------------------- EFI mmap ----

#[derive(Clone, Copy, Debug, PartialEq, Eq)]
pub struct EfiDesc {
    pub ty: u32,
    pub phys_start: u64,
    pub virt_start: u64,
    pub page_count: u64,
    pub att: u64,
}

/// EFI_MEMORY_DESCRIPTOR version 1 (40 bytes: u32 type, u32 pad, 4 x u64)
pub fn efi_decode(d: &[u8]) -> EfiDesc {
    EfiDesc {
        ty: le32(d, 0),
        phys_start: le64(d, 8),
        virt_start: le64(d, 16),
        page_count: le64(d, 24),
        att: le64(d, 32),
    }
}

/// Is (version, desc_size, map_len) an acceptable combination? (C18)
pub fn efi_acceptable(version: u32, d: usize, l: usize) -> bool {
    version == 1 && d >= 40 && d % 8 == 0 && l % d == 0
}

// ----------------------------------------------------------- find_header ----

#[derive(Clone, Debug, PartialEq, Eq)]
pub enum Found {
    NoHeader,
    /// (index, length)
    At(usize, usize),
    Error,
}

/// Reference for searching a binary image for the Multiboot2 header (C13).
pub fn find_header(buf: &[u8]) -> Found {
    let win = buf.len().min(8192);
    let magic = HDR_MAGIC.to_le_bytes();
    let mut first = None;
    if win >= 4 {
        for i in 0..=win - 4 {
            if buf[i..i + 4] == magic {
                first = Some(i);
                break;
            }
        }
    }
    let i = match first {
        None => return Found::NoHeader,
        Some(i) => i,
    };
    if i % 8 != 0 {
        return Found::Error;
    }
    if i + 12 > buf.len() {
        return Found::Error; // truncated before the length word
    }
    let l = le32(buf, i + 8) as usize;
    match i.checked_add(l) {
        Some(e) if e <= buf.len() => Found::At(i, l),
        _ => Found::Error,
    }
}

// ------------------------------------------------------------ misc decode ----

pub fn rsdp_sum_ok(bytes: &[u8]) -> bool {
    bytes.iter().fold(0u8, |a, b| a.wrapping_add(*b)) == 0
}

pub fn rd(b: &[u8], off: usize, width: usize) -> u64 {
    match width {
        1 => b[off] as u64,
        2 => le16(b, off) as u64,
        4 => le32(b, off) as u64,
        8 => le64(b, off),
        _ => unreachable!(),
    }
}
