//! C08 — results do not depend on build profile or optional features.
//!
//! The driver produces a canonical, address-free transcript per case; the
//! orchestrator runs the same cases in {dev, release} x {default features,
//! no default features} and compares block hashes (M7, E5).

use super::Driver;
use crate::exercise::{self, Ex, Opts, Tr};
use crate::exercise_hdr;
use crate::gen;
use crate::region::Region;
use crate::spec::*;
use crate::util::*;
use multiboot2::{BootInformation, BootInformationHeader, TagHeader};
use multiboot2_common::{DynSizedStructure, Header};
use multiboot2_header::{HeaderTagHeader, HeaderTagISA, Multiboot2BasicHeader, Multiboot2Header};

pub struct C08 {
    block_first: Option<u64>,
    acc: u64,
    n: u64,
}

pub const BLOCK: u64 = 64;

impl C08 {
    pub fn new() -> Self {
        gen::use_fake_names();
        C08 { block_first: None, acc: 0, n: 0 }
    }
    fn flush(&mut self) {
        if let Some(f) = self.block_first.take() {
            println!("TB {} {:x}", f, mix2(self.acc, self.n));
        }
        self.acc = 0;
        self.n = 0;
    }

    fn mbi_region(&self, ctx: &mut Ctx, tr: &mut Tr, mem: &[u8]) {
        let reg = Region::new(ctx.placement, mem);
        let r = catch(|| unsafe { BootInformation::load(reg.ptr().cast::<BootInformationHeader>()) });
        match r {
            Out::Panic(_) => {
                tr.line("load Panic");
                ctx.count("mbi:load:Panic");
            }
            Out::Val(Err(e)) => {
                tr.line(&format!("load Err({:?})", e));
                ctx.count("mbi:load:Err");
            }
            Out::Val(Ok(bi)) => {
                tr.line("load Ok");
                ctx.count("mbi:load:Ok");
                let opts = Opts { debug: false, debug_whole: false, strict_extent: false };
                let mut ex = Ex { reg: &reg, tr, opts: &opts };
                ex.mbi(ctx, &bi, mem);
            }
        }
    }

    fn hdr_region(&self, ctx: &mut Ctx, tr: &mut Tr, mem: &[u8]) {
        let reg = Region::new(ctx.placement, mem);
        let r = catch(|| unsafe { Multiboot2Header::load(reg.ptr().cast::<Multiboot2BasicHeader>()) });
        match r {
            Out::Panic(_) => {
                tr.line("hload Panic");
                ctx.count("hdr:load:Panic");
            }
            Out::Val(Err(e)) => {
                tr.line(&format!("hload Err({:?})", e));
                ctx.count("hdr:load:Err");
            }
            Out::Val(Ok(h)) => {
                tr.line("hload Ok");
                ctx.count("hdr:load:Ok");
                let opts = Opts { debug: false, debug_whole: false, strict_extent: false };
                exercise_hdr::header(ctx, &reg, tr, &opts, &h, mem);
            }
        }
    }

    fn ref_from_slice<H: Header>(&self, ctx: &mut Ctx, tr: &mut Tr, name: &str, mem: &[u8]) {
        let reg = Region::new(ctx.placement, mem);
        let r = catch(|| DynSizedStructure::<H>::ref_from_slice(reg.as_slice()).map(|s| (s.payload().len(), core::mem::size_of_val(s))));
        tr.line(&format!("ref_from_slice<{}> {:?}", name, r));
        ctx.count("ref_from_slice");
    }
}

impl Driver for C08 {
    fn ncases(&self, ctx: &Ctx) -> u64 {
        match ctx.tier {
            Tier::Quick => 4_000_000,
            Tier::Thorough => 200_000_000,
        }
    }

    fn finish(&mut self, _ctx: &mut Ctx) {
        self.flush();
    }

    fn run_case(&mut self, ctx: &mut Ctx, idx: u64) {
        let mut tr = Tr::new(true, ctx.transcript);
        if self.block_first.is_none() {
            self.block_first = Some(crate::util::CURRENT_POS.load(std::sync::atomic::Ordering::Relaxed));
        }
        ctx.eval();
        let mut nontrivial = false;
        // selectors are hashed so that they are independent of the shard stride
        let sel = mix(idx ^ 0xc08);
        let sub = (sel >> 16) % 1024;
        match sel % 10 {
            // boot informations: conformant / corrupted / blind / random
            0 | 1 | 2 => {
                let (mut bytes, tags) = gen::conformant_mbi(&mut ctx.rng, 8);
                match ctx.rng.below(12) {
                    0 => {}
                    1 => {
                        gen::blind_mutate(&mut ctx.rng, &mut bytes);
                    }
                    _ => {
                        gen::corrupt_mbi(&mut ctx.rng, &mut bytes, &tags);
                    }
                }
                let fix_end = ctx.rng.chance(7, 8);
                gen::ensure_backing(&mut ctx.rng, &mut bytes, 1 << 16, fix_end);
                let ts = le32(&bytes, 0) as usize;
                let n = ts.max(8).min(bytes.len());
                self.mbi_region(ctx, &mut tr, &bytes[..n]);
                nontrivial = true;
            }
            // headers
            3 | 4 => {
                let (mut bytes, tags) = gen::conformant_hdr(&mut ctx.rng, 8);
                if !ctx.rng.chance(1, 10) {
                    gen::corrupt_hdr(&mut ctx.rng, &mut bytes, &tags);
                }
                let len = le32(&bytes, 8) as usize;
                if len > 1 << 16 {
                    let n = bytes.len() as u32;
                    put32(&mut bytes, 8, n);
                    let arch = le32(&bytes, 4);
                    put32(&mut bytes, 12, checksum(HDR_MAGIC, arch, n));
                }
                let len = le32(&bytes, 8) as usize;
                while bytes.len() < len {
                    bytes.extend_from_slice(&[6, 0, 0, 0, 8, 0, 0, 0]);
                }
                let n = len.max(16).min(bytes.len());
                if super::c09::premise_holds(&bytes[..n]) {
                    self.hdr_region(ctx, &mut tr, &bytes[..n]);
                    nontrivial = true;
                } else {
                    tr.line("skipped: undefined enum value reachable");
                }
            }
            // declared sizes below / around each header size
            5 => {
                let k = sub % 4;
                match k {
                    0 => {
                        // total_size 0..=16
                        let ts = ctx.rng.below(17) as u32;
                        let mut mem = ctx.rng.marker_bytes((ts as usize).max(8).max(16));
                        put32(&mut mem, 0, ts);
                        if ts >= 16 {
                            put32(&mut mem, 8, 0);
                            put32(&mut mem, 12, 8);
                        }
                        let n = (ts as usize).max(8);
                        self.mbi_region(ctx, &mut tr, &mem[..n]);
                    }
                    1 => {
                        // header length 0..=32
                        let len = ctx.rng.below(33) as u32;
                        let arch = *ctx.rng.pick(&gen::ARCHS);
                        let mut mem = vec![0u8; (len as usize).max(16)];
                        put32(&mut mem, 0, HDR_MAGIC);
                        put32(&mut mem, 4, arch);
                        put32(&mut mem, 8, len);
                        put32(&mut mem, 12, checksum(HDR_MAGIC, arch, len));
                        if len >= 24 {
                            put32(&mut mem, 20, 8);
                        }
                        self.hdr_region(ctx, &mut tr, &mem);
                    }
                    2 => {
                        // MBI tag sizes 0..=16 inside a loadable region
                        let s = ctx.rng.below(17) as u32;
                        let mut m = MbiBuf::new();
                        let typ = ctx.rng.below(22) as u32;
                        m.push(typ, &ctx.rng.marker_bytes(8));
                        let (mut bytes, tags) = m.finish_keep();
                        put32(&mut bytes, tags[0].off + 4, s);
                        self.mbi_region(ctx, &mut tr, &bytes);
                    }
                    _ => {
                        // header tag sizes 0..=16
                        let s = ctx.rng.below(17) as u32;
                        let mut h = HdrBuf::new(0);
                        let typ = 1 + ctx.rng.below(10) as u16;
                        let body = gen::hdr_body(&mut ctx.rng, typ);
                        h.push(typ, 0, &body);
                        h.push(H_END, 0, &[]);
                        let (mut bytes, tags) = h.finish();
                        put32(&mut bytes, tags[0].off + 4, s);
                        if super::c09::premise_holds(&bytes) {
                            self.hdr_region(ctx, &mut tr, &bytes);
                        }
                    }
                }
                nontrivial = true;
            }
            // all framebuffer type bytes
            6 => {
                let b = (sub % 256) as u8;
                let shape = ctx.rng.below(3) as u8;
                let mut body = gen::fb_body(&mut ctx.rng, shape, 2);
                body[21] = b;
                let mut m = MbiBuf::new();
                m.push(T_FB, &body);
                let bytes = m.finish();
                self.mbi_region(ctx, &mut tr, &bytes);
                nontrivial = true;
            }
            // calc_checksum at extreme arguments; find_header
            7 => {
                if sub % 2 == 0 {
                    for _ in 0..8 {
                        let m = if ctx.rng.chance(1, 2) { HDR_MAGIC } else { ctx.rng.u32_edge() };
                        let l = ctx.rng.u32_edge();
                        let (arch, a) = if ctx.rng.chance(1, 2) { (HeaderTagISA::I386, 0) } else { (HeaderTagISA::MIPS32, 4) };
                        let r = catch(|| Multiboot2Header::calc_checksum(m, arch, l));
                        tr.line(&format!("calc_checksum({},{},{}) {:?}", m, a, l, r));
                    }
                    ctx.count("calc_checksum");
                } else {
                    let len = match ctx.rng.below(4) {
                        0 => ctx.rng.below(64) as usize,
                        1 => 8180 + ctx.rng.below(40) as usize,
                        _ => ctx.rng.below(12000) as usize,
                    };
                    let mut buf: Vec<u8> = (0..len).map(|_| 1 + ctx.rng.below(0x4f) as u8).collect();
                    if len >= 4 && ctx.rng.chance(3, 4) {
                        let i = match ctx.rng.below(3) {
                            0 => (ctx.rng.below(len as u64) as usize) & !7,
                            1 => ctx.rng.below(len as u64) as usize,
                            _ => len.saturating_sub(ctx.rng.below(20) as usize) & !7,
                        };
                        if i + 4 <= len {
                            buf[i..i + 4].copy_from_slice(&HDR_MAGIC.to_le_bytes());
                            if i + 12 <= len {
                                let l = match ctx.rng.below(4) {
                                    0 => (len - i) as u32,
                                    1 => (len - i) as u32 + 1,
                                    2 => ctx.rng.u32_edge(),
                                    _ => ctx.rng.below((len - i) as u64 + 1) as u32,
                                };
                                put32(&mut buf, i + 8, l);
                            }
                        }
                    }
                    let reg = Region::new(ctx.placement, &buf);
                    let r = catch(|| Multiboot2Header::find_header(reg.as_slice()).map(|o| o.map(|(s, i)| (reg.off_of(s.as_ptr() as usize), s.len(), i))));
                    tr.line(&format!("find_header {:?}", r));
                    ctx.count("find_header");
                }
                nontrivial = true;
            }
            // ref_from_slice for the crates' four header types
            8 => {
                let len = 8 * ctx.rng.below(6) as usize + if ctx.rng.chance(1, 8) { ctx.rng.below(8) as usize } else { 0 };
                let declared = ctx.rng.below(len as u64 + 18) as u32;
                let mut mem = ctx.rng.marker_bytes(len);
                match sub % 4 {
                    0 => {
                        if len >= 8 {
                            put32(&mut mem, 4, declared);
                        }
                        self.ref_from_slice::<TagHeader>(ctx, &mut tr, "TagHeader", &mem);
                    }
                    1 => {
                        if len >= 8 {
                            put32(&mut mem, 0, declared);
                        }
                        self.ref_from_slice::<BootInformationHeader>(ctx, &mut tr, "BootInformationHeader", &mem);
                    }
                    2 => {
                        if len >= 8 {
                            put16(&mut mem, 0, ctx.rng.below(11) as u16);
                            put16(&mut mem, 2, ctx.rng.below(2) as u16);
                            put32(&mut mem, 4, declared);
                        }
                        self.ref_from_slice::<HeaderTagHeader>(ctx, &mut tr, "HeaderTagHeader", &mem);
                    }
                    _ => {
                        if len >= 16 {
                            put32(&mut mem, 4, *ctx.rng.pick(&gen::ARCHS));
                            put32(&mut mem, 8, declared);
                        }
                        if len >= 16 || len < 8 {
                            self.ref_from_slice::<Multiboot2BasicHeader>(ctx, &mut tr, "Multiboot2BasicHeader", &mem);
                        } else if len >= 8 {
                            // 8..15 bytes: the arch field must still hold a defined value
                            put32(&mut mem, 4, 0);
                            self.ref_from_slice::<Multiboot2BasicHeader>(ctx, &mut tr, "Multiboot2BasicHeader", &mem);
                        }
                    }
                }
                nontrivial = declared < 16 || declared as usize > len;
            }
            // constructors that exist in every feature set (sized tags) and RSDP
            // checksums over every stored length
            9 if sub % 4 == 0 => {
                use multiboot2::*;
                let r = &mut ctx.rng;
                fn img<T: multiboot2_common::MaybeDynSized<Header = TagHeader>>(t: &T) -> String {
                    let n = (multiboot2_common::MaybeDynSized::header(t).size as usize).min(core::mem::size_of::<T>());
                    hex(unsafe { core::slice::from_raw_parts(t as *const T as *const u8, n) })
                }
                let lines = vec![
                    format!("ApmTag::new {}", img(&ApmTag::new(r.u16(), r.u16(), r.u32(), r.u16(), r.u16(), r.u16(), r.u16(), r.u16(), r.u16()))),
                    format!("BasicMemoryInfoTag::new {}", img(&BasicMemoryInfoTag::new(r.u32(), r.u32()))),
                    format!("BootdevTag::new {}", img(&BootdevTag::new(r.u32(), r.u32(), r.u32()))),
                    format!("EFISdt32Tag::new {}", img(&EFISdt32Tag::new(r.u32()))),
                    format!("EFISdt64Tag::new {}", img(&EFISdt64Tag::new(r.next()))),
                    format!("EFIImageHandle32Tag::new {}", img(&EFIImageHandle32Tag::new(r.u32()))),
                    format!("EFIImageHandle64Tag::new {}", img(&EFIImageHandle64Tag::new(r.next()))),
                    format!("EFIBootServicesNotExitedTag::new {}", img(&EFIBootServicesNotExitedTag::new())),
                    format!("ImageLoadPhysAddrTag::new {}", img(&ImageLoadPhysAddrTag::new(r.u32()))),
                    format!("RsdpV1Tag::new {}", img(&RsdpV1Tag::new(r.u8(), *b"OEMID1", r.u8(), r.u32()))),
                    format!("RsdpV2Tag::new {}", img(&RsdpV2Tag::new(r.u8(), *b"OEMID2", r.u8(), r.u32(), 36, r.next(), r.u8()))),
                    format!("EndTag::default {}", img(&EndTag::default())),
                ];
                for l in lines {
                    tr.line(&l);
                }
                ctx.count("sized-constructors");
                nontrivial = true;
            }
            9 if sub % 4 == 1 => {
                // RSDP v2 with every stored length 0..=64 and a checksum byte that makes
                // the first `length` (<= 36) bytes sum to zero
                let length = (sub / 4) % 65;
                let mut body = gen::rsdp_v2(&mut ctx.rng, true, length as u32);
                put32(&mut body, 20, length as u32);
                // for lengths beyond the 36 stored bytes make the sum of all 36 bytes + pad zero as well
                let s: u8 = body.iter().fold(0u8, |a, x| a.wrapping_add(*x));
                body[16] = body[16].wrapping_sub(s);
                let mut m = MbiBuf::new();
                m.push(T_ACPI2, &body);
                let mut bytes = m.finish();
                // padding after the tag: zero, so sums over it are predictable
                for b in &mut bytes[8 + 44..8 + 48] {
                    *b = 0;
                }
                self.mbi_region(ctx, &mut tr, &bytes);
                nontrivial = true;
            }
            // hostile standalone tags
            _ => {
                let typ = (sub % 22) as u32;
                let (t, _) = super::c01::hostile_tag(&mut ctx.rng, typ);
                let reg = Region::new(ctx.placement, &t);
                let opts = Opts { debug: false, debug_whole: false, strict_extent: false };
                exercise::standalone(ctx, &reg, &mut tr, &opts, &t);
                nontrivial = true;
            }
        }
        if nontrivial {
            ctx.nontrivial(mix2(tr.h, idx));
        }
        if ctx.transcript {
            for l in &tr.lines {
                println!("T {} {}", idx, l);
            }
        }
        if ctx.want_sample() && idx % 10 == 0 && tr.nlines > 20 {
            ctx.sample(J::obj(vec![("case", J::u(idx)), ("transcript_lines", J::u(tr.nlines)), ("transcript_hash", J::s(format!("{:x}", tr.h)))]));
        }
        self.acc = mix2(self.acc, tr.h);
        self.n += 1;
        if self.n == BLOCK {
            self.flush();
        }
    }
}
