//! C07 — every tag constructor emits the spec-exact binary image.

use super::Driver;
use crate::spec::*;
use crate::util::*;
use multiboot2::*;
use multiboot2_common::{MaybeDynSized, Tag};
use multiboot2_header as h;

pub struct C07;

/// expected image builder
struct Img(Vec<u8>);
impl Img {
    fn mbi(typ: u32) -> Img {
        let mut v = vec![];
        v.extend_from_slice(&typ.to_le_bytes());
        v.extend_from_slice(&[0; 4]);
        Img(v)
    }
    fn hdr(typ: u16, flags: u16) -> Img {
        let mut v = vec![];
        v.extend_from_slice(&typ.to_le_bytes());
        v.extend_from_slice(&flags.to_le_bytes());
        v.extend_from_slice(&[0; 4]);
        Img(v)
    }
    fn u8(mut self, x: u8) -> Img {
        self.0.push(x);
        self
    }
    fn u16(mut self, x: u16) -> Img {
        self.0.extend_from_slice(&x.to_le_bytes());
        self
    }
    fn u32(mut self, x: u32) -> Img {
        self.0.extend_from_slice(&x.to_le_bytes());
        self
    }
    fn u64(mut self, x: u64) -> Img {
        self.0.extend_from_slice(&x.to_le_bytes());
        self
    }
    fn b(mut self, x: &[u8]) -> Img {
        self.0.extend_from_slice(x);
        self
    }
    fn done(mut self) -> Vec<u8> {
        let n = self.0.len() as u32;
        put32(&mut self.0, 4, n);
        self.0
    }
}

#[repr(C, align(8))]
struct Wrap<T> {
    pre: u32,
    t: T,
}

/// Judges one constructed tag against the reference image.
/// `acc_ok`: accessor read-back == arguments (computed by the caller).
fn judge<T: ?Sized + MaybeDynSized>(ctx: &mut Ctx, name: &str, t: &T, exp: &[u8], id_ok: bool, acc_ok: bool, args: &J) {
    ctx.eval();
    let sov = core::mem::size_of_val(t);
    let n = exp.len().min(sov);
    let raw = unsafe { core::slice::from_raw_parts(t as *const T as *const u8, n.max(8).min(sov)) };
    let viol = |ctx: &mut Ctx, sig: &str, msg: String| {
        ctx.violation(&format!("{}:{}", name, sig), J::obj(vec![("what", J::s(msg)), ("constructor", J::s(name)), ("args", args.clone()), ("expected_image", J::hex(exp))]));
    };
    if raw[..4] != exp[..4] {
        viol(ctx, "type-field", format!("type field {} but the specification says {}", hex(&raw[..4]), hex(&exp[..4])));
        return;
    }
    if !id_ok {
        viol(ctx, "ID-constant", "the kind's ID constant differs from the specified number".into());
        return;
    }
    if raw[4..8] != exp[4..8] {
        viol(ctx, "size-field", format!("size field {} but the unpadded byte count is {}", le32(raw, 4), exp.len()));
        return;
    }
    if sov != round8(exp.len()) && sov < exp.len() {
        viol(ctx, "object-too-small", format!("size_of_val {}", sov));
        return;
    }
    if raw != &exp[..raw.len()] {
        viol(ctx, "image", format!("bytes {} differ from the little-endian encoding of the arguments", hex(raw)));
        return;
    }
    if !acc_ok {
        viol(ctx, "read-back", "accessors do not return the arguments".into());
        return;
    }
    // the byte view must be obtainable here
    match catch(|| {
        let b = t.as_bytes();
        (b.as_ptr() as usize, b.len(), t.as_ptr() as usize, MaybeDynSized::payload(t).len())
    }) {
        Out::Val((p, l, ap, pl)) => {
            if p != t as *const T as *const u8 as usize || l != sov || ap != p || pl != sov - core::mem::size_of::<T::Header>() {
                viol(ctx, "as_bytes-extent", format!("as_bytes() -> {} bytes", l));
            }
        }
        Out::Panic(site) => viol(ctx, &format!("as_bytes-panics@{}", site), "as_bytes() panicked for a tag in its natural position".into()),
    }
    ctx.count(&format!("ok:{}", name));
    ctx.nontrivial(mix2(str_hash(name), hash_bytes(exp)));
    if ctx.want_sample() && ctx.case % 5 == 1 {
        ctx.sample(J::obj(vec![("constructor", J::s(name)), ("args", args.clone()), ("image", J::hex(exp))]));
    }
}

/// "wherever the tag is placed": second field of a repr(C) wrapper after a
/// u32 in an 8-aligned box; a type with alignment < 8 lands on 4 mod 8.
fn placed<T: MaybeDynSized>(ctx: &mut Ctx, name: &str, t: T) {
    ctx.eval();
    let w = Box::new(Wrap { pre: 0xdead_beef, t });
    let addr = &w.t as *const T as usize;
    let r = catch(|| w.t.as_bytes().len());
    match r {
        Out::Val(_) => ctx.count(if addr % 8 == 0 { "placed:8-aligned" } else { "placed:4-mod-8" }),
        Out::Panic(site) => ctx.violation(
            &format!("{}:as_bytes-panics-when-embedded@{}", name, site),
            J::obj(vec![("constructor", J::s(name)), ("what", J::s(format!("tag embedded after a u32 in a repr(C) struct sits at address % 8 == {}; as_bytes() panicked", addr % 8)))]),
        ),
    }
    let _ = w.pre;
}

impl C07 {
    fn mbi_sized(&self, ctx: &mut Ctx) {
        let r = &mut ctx.rng.clone();
        // ApmTag
        {
            let a = (r.u16(), r.u16(), r.u32(), r.u16(), r.u16(), r.u16(), r.u16(), r.u16(), r.u16());
            let t = ApmTag::new(a.0, a.1, a.2, a.3, a.4, a.5, a.6, a.7, a.8);
            let exp = Img::mbi(10).u16(a.0).u16(a.1).u32(a.2).u16(a.3).u16(a.4).u16(a.5).u16(a.6).u16(a.7).u16(a.8).done();
            let acc = (t.version(), t.cseg(), t.offset(), t.cset_16(), t.dseg(), t.flags(), t.cseg_len(), t.cseg_16_len(), t.dseg_len()) == a;
            judge(ctx, "ApmTag::new", &t, &exp, ApmTag::ID == TagType::from(10), acc, &J::s(format!("{:?}", a)));
            placed(ctx, "ApmTag::new", t);
        }
        {
            let a = (r.u32(), r.u32());
            let t = BasicMemoryInfoTag::new(a.0, a.1);
            let exp = Img::mbi(4).u32(a.0).u32(a.1).done();
            judge(ctx, "BasicMemoryInfoTag::new", &t, &exp, BasicMemoryInfoTag::ID == TagType::from(4), (t.memory_lower(), t.memory_upper()) == a, &J::s(format!("{:?}", a)));
            placed(ctx, "BasicMemoryInfoTag::new", t);
        }
        {
            let a = (r.u32(), r.u32(), r.u32());
            let t = BootdevTag::new(a.0, a.1, a.2);
            let exp = Img::mbi(5).u32(a.0).u32(a.1).u32(a.2).done();
            judge(ctx, "BootdevTag::new", &t, &exp, BootdevTag::ID == TagType::from(5), (t.biosdev(), t.slice(), t.part()) == a, &J::s(format!("{:?}", a)));
            placed(ctx, "BootdevTag::new", t);
        }
        {
            let a = r.u32();
            let t = EFISdt32Tag::new(a);
            judge(ctx, "EFISdt32Tag::new", &t, &Img::mbi(11).u32(a).done(), EFISdt32Tag::ID == TagType::from(11), t.sdt_address() == a as usize, &J::u(a as u64));
            placed(ctx, "EFISdt32Tag::new", t);
            let a = r.next();
            let t = EFISdt64Tag::new(a);
            judge(ctx, "EFISdt64Tag::new", &t, &Img::mbi(12).u64(a).done(), EFISdt64Tag::ID == TagType::from(12), t.sdt_address() == a as usize, &J::s(format!("{:#x}", a)));
            placed(ctx, "EFISdt64Tag::new", t);
            let a = r.u32();
            let t = EFIImageHandle32Tag::new(a);
            judge(ctx, "EFIImageHandle32Tag::new", &t, &Img::mbi(19).u32(a).done(), EFIImageHandle32Tag::ID == TagType::from(19), t.image_handle() == a as usize, &J::u(a as u64));
            placed(ctx, "EFIImageHandle32Tag::new", t);
            let a = r.next();
            let t = EFIImageHandle64Tag::new(a);
            judge(ctx, "EFIImageHandle64Tag::new", &t, &Img::mbi(20).u64(a).done(), EFIImageHandle64Tag::ID == TagType::from(20), t.image_handle() == a as usize, &J::s(format!("{:#x}", a)));
            placed(ctx, "EFIImageHandle64Tag::new", t);
            let a = r.u32();
            let t = ImageLoadPhysAddrTag::new(a);
            judge(ctx, "ImageLoadPhysAddrTag::new", &t, &Img::mbi(21).u32(a).done(), ImageLoadPhysAddrTag::ID == TagType::from(21), t.load_base_addr() == a, &J::u(a as u64));
            placed(ctx, "ImageLoadPhysAddrTag::new", t);
        }
        {
            let t = EFIBootServicesNotExitedTag::new();
            judge(ctx, "EFIBootServicesNotExitedTag::new", &t, &Img::mbi(18).done(), EFIBootServicesNotExitedTag::ID == TagType::from(18), true, &J::Null);
            let t2 = EFIBootServicesNotExitedTag::default();
            judge(ctx, "EFIBootServicesNotExitedTag::default", &t2, &Img::mbi(18).done(), true, true, &J::Null);
            placed(ctx, "EFIBootServicesNotExitedTag::new", t);
            let e = EndTag::default();
            judge(ctx, "EndTag::default", &e, &Img::mbi(0).done(), EndTag::ID == TagType::from(0), true, &J::Null);
            placed(ctx, "EndTag::default", e);
        }
        {
            let oem = [b'A' + r.u8() % 26, b'b', b'C', r.u8() | 1, b'e', b'F'];
            let a = (r.u8(), r.u8(), r.u32());
            let t = RsdpV1Tag::new(a.0, oem, a.1, a.2);
            let exp = Img::mbi(14).b(b"RSD PTR ").u8(a.0).b(&oem).u8(a.1).u32(a.2).done();
            let acc = t.revision() == a.1 && t.rsdt_address() == a.2 as usize && t.signature() == Ok("RSD PTR ") && t.checksum_is_valid() == rsdp_sum_ok(&exp[8..28]);
            judge(ctx, "RsdpV1Tag::new", &t, &exp, RsdpV1Tag::ID == TagType::from(14), acc, &J::s(format!("{:?} oem {:?}", a, oem)));
            placed(ctx, "RsdpV1Tag::new", t);
            let a = (r.u8(), r.u8(), r.u32(), *r.pick(&[20u32, 36]), r.next(), r.u8());
            let t = RsdpV2Tag::new(a.0, oem, a.1, a.2, a.3, a.4, a.5);
            let exp = Img::mbi(15).b(b"RSD PTR ").u8(a.0).b(&oem).u8(a.1).u32(a.2).u32(a.3).u64(a.4).u8(a.5).b(&[0; 3]).done();
            let acc = t.revision() == a.1 && t.xsdt_address() == a.4 as usize && t.ext_checksum() == a.5 && t.signature() == Ok("RSD PTR ") && t.checksum_is_valid() == rsdp_sum_ok(&exp[8..8 + a.3 as usize]);
            judge(ctx, "RsdpV2Tag::new", &t, &exp, RsdpV2Tag::ID == TagType::from(15), acc, &J::s(format!("{:?} oem {:?}", a, oem)));
            placed(ctx, "RsdpV2Tag::new", t);
        }
        {
            // VBE: every public field marked
            let mut ci = VBEControlInfo::default();
            ci.signature = [r.u8(), r.u8(), r.u8(), r.u8()];
            ci.version = r.u16();
            ci.oem_string_ptr = r.u32();
            ci.capabilities = VBECapabilities::from_bits_retain(r.u32());
            ci.mode_list_ptr = r.u32();
            ci.total_memory = r.u16();
            ci.oem_software_revision = r.u16();
            ci.oem_vendor_name_ptr = r.u32();
            ci.oem_product_name_ptr = r.u32();
            ci.oem_product_revision_ptr = r.u32();
            let mut mi = VBEModeInfo::default();
            mi.mode_attributes = VBEModeAttributes::from_bits_retain(r.u16());
            mi.window_a_attributes = VBEWindowAttributes::from_bits_retain(r.u8());
            mi.window_b_attributes = VBEWindowAttributes::from_bits_retain(r.u8());
            mi.window_granularity = r.u16();
            mi.window_size = r.u16();
            mi.window_a_segment = r.u16();
            mi.window_b_segment = r.u16();
            mi.window_function_ptr = r.u32();
            mi.pitch = r.u16();
            mi.resolution = (r.u16(), r.u16());
            mi.character_size = (r.u8(), r.u8());
            mi.number_of_planes = r.u8();
            mi.bpp = r.u8();
            mi.number_of_banks = r.u8();
            let mm = r.below(8) as u8;
            mi.memory_model = [
                VBEMemoryModel::Text,
                VBEMemoryModel::CGAGraphics,
                VBEMemoryModel::HerculesGraphics,
                VBEMemoryModel::Planar,
                VBEMemoryModel::PackedPixel,
                VBEMemoryModel::Unchained,
                VBEMemoryModel::DirectColor,
                VBEMemoryModel::YUV,
            ][mm as usize];
            mi.bank_size = r.u8();
            mi.number_of_image_pages = r.u8();
            mi.red_field = VBEField { size: r.u8(), position: r.u8() };
            mi.green_field = VBEField { size: r.u8(), position: r.u8() };
            mi.blue_field = VBEField { size: r.u8(), position: r.u8() };
            mi.reserved_field = VBEField { size: r.u8(), position: r.u8() };
            mi.direct_color_attributes = VBEDirectColorAttributes::from_bits_retain(r.u8());
            mi.framebuffer_base_ptr = r.u32();
            mi.offscreen_memory_offset = r.u32();
            mi.offscreen_memory_size = r.u16();
            let a = (r.u16(), r.u16(), r.u16(), r.u16());
            let t = VBEInfoTag::new(a.0, a.1, a.2, a.3, ci, mi);
            let mut e = Img::mbi(7).u16(a.0).u16(a.1).u16(a.2).u16(a.3);
            e = e.b(&ci.signature).u16(ci.version).u32(ci.oem_string_ptr).u32({ ci.capabilities }.bits()).u32(ci.mode_list_ptr).u16(ci.total_memory).u16(ci.oem_software_revision);
            e = e.u32(ci.oem_vendor_name_ptr).u32(ci.oem_product_name_ptr).u32(ci.oem_product_revision_ptr).b(&[0; 222]).b(&[0; 256]);
            e = e.u16({ mi.mode_attributes }.bits()).u8({ mi.window_a_attributes }.bits()).u8({ mi.window_b_attributes }.bits()).u16(mi.window_granularity).u16(mi.window_size);
            e = e.u16(mi.window_a_segment).u16(mi.window_b_segment).u32(mi.window_function_ptr).u16(mi.pitch).u16({ mi.resolution }.0).u16({ mi.resolution }.1);
            e = e.u8({ mi.character_size }.0).u8({ mi.character_size }.1).u8(mi.number_of_planes).u8(mi.bpp).u8(mi.number_of_banks).u8(mm).u8(mi.bank_size).u8(mi.number_of_image_pages).u8(0);
            for f in [mi.red_field, mi.green_field, mi.blue_field, mi.reserved_field] {
                e = e.u8(f.size).u8(f.position);
            }
            e = e.u8({ mi.direct_color_attributes }.bits()).u32(mi.framebuffer_base_ptr).u32(mi.offscreen_memory_offset).u16(mi.offscreen_memory_size).b(&[0; 206]);
            let exp = e.done();
            let acc = (t.mode(), t.interface_segment(), t.interface_offset(), t.interface_length()) == a && t.control_info() == ci && t.mode_info() == mi;
            judge(ctx, "VBEInfoTag::new", &t, &exp, VBEInfoTag::ID == TagType::from(7), acc, &J::s(format!("{:?}", a)));
            placed(ctx, "VBEInfoTag::new", t);
        }
        ctx.rng = r.clone();
    }

    fn mbi_dst(&self, ctx: &mut Ctx, len: usize) {
        let r = &mut ctx.rng.clone();
        let text = {
            let mut t = crate::gen::rand_text(r, len);
            while t.len() < len {
                t.push(b'x');
            }
            String::from_utf8(t).unwrap()
        };
        {
            let t = CommandLineTag::new(&text);
            let exp = Img::mbi(1).b(text.as_bytes()).u8(0).done();
            judge(ctx, "CommandLineTag::new", &*t, &exp, CommandLineTag::ID == TagType::from(1), t.cmdline() == Ok(&text), &J::s(text.clone()));
            let t = BootLoaderNameTag::new(&text);
            let exp = Img::mbi(2).b(text.as_bytes()).u8(0).done();
            judge(ctx, "BootLoaderNameTag::new", &*t, &exp, BootLoaderNameTag::ID == TagType::from(2), t.name() == Ok(&text), &J::s(text.clone()));
            let s = r.u32() >> 1;
            let e = s + 1 + (r.u32() >> 2);
            let t = ModuleTag::new(s, e, &text);
            let exp = Img::mbi(3).u32(s).u32(e).b(text.as_bytes()).u8(0).done();
            let acc = t.start_address() == s && t.end_address() == e && t.module_size() == e - s && t.cmdline() == Ok(&text);
            judge(ctx, "ModuleTag::new", &*t, &exp, ModuleTag::ID == TagType::from(3), acc, &J::s(format!("{} {} {:?}", s, e, text)));
        }
        {
            let raw = r.bytes(len);
            let t = NetworkTag::new(&raw);
            judge(ctx, "NetworkTag::new", &*t, &Img::mbi(16).b(&raw).done(), NetworkTag::ID == TagType::from(16), true, &J::hex(&raw));
            let (ma, mi) = (r.u8(), r.u8());
            let t = SmbiosTag::new(ma, mi, &raw);
            let exp = Img::mbi(13).u8(ma).u8(mi).b(&[0; 6]).b(&raw).done();
            judge(ctx, "SmbiosTag::new", &*t, &exp, SmbiosTag::ID == TagType::from(13), t.major() == ma && t.minor() == mi && t.tables() == &raw[..], &J::hex(&raw));
            let a = (r.u32(), r.u32(), r.u32());
            let t = ElfSectionsTag::new(a.0, a.1, a.2, &raw);
            let exp = Img::mbi(9).u32(a.0).u32(a.1).u32(a.2).b(&raw).done();
            judge(ctx, "ElfSectionsTag::new", &*t, &exp, ElfSectionsTag::ID == TagType::from(9), (t.number_of_sections(), t.entry_size(), t.shndx()) == a, &J::s(format!("{:?}", a)));
            let (d, v) = (1 + r.u32() % 200, r.u32());
            let t = EFIMemoryMapTag::new_from_map(d, v, &raw);
            judge(ctx, "EFIMemoryMapTag::new_from_map", &*t, &Img::mbi(17).u32(d).u32(v).b(&raw).done(), EFIMemoryMapTag::ID == TagType::from(17), true, &J::s(format!("{} {}", d, v)));
        }
        if len <= 12 {
            let n = len;
            // the type argument as a raw number and as every symbolic variant
            let sym = [
                (MemoryAreaType::Available, 1u32),
                (MemoryAreaType::Reserved, 2),
                (MemoryAreaType::AcpiAvailable, 3),
                (MemoryAreaType::ReservedHibernate, 4),
                (MemoryAreaType::Defective, 5),
                (MemoryAreaType::Custom(0x77), 0x77),
            ];
            let mut want_types = vec![];
            let areas: Vec<MemoryArea> = (0..n)
                .map(|i| {
                    if i % 2 == 0 {
                        let t = r.u32();
                        want_types.push(t);
                        MemoryArea::new(r.next(), r.next(), t)
                    } else {
                        let (t, num) = sym[(i / 2 + ctx.case as usize) % sym.len()];
                        want_types.push(num);
                        MemoryArea::new(r.next(), r.next(), t)
                    }
                })
                .collect();
            let t = MemoryMapTag::new(&areas);
            let mut e = Img::mbi(6).u32(24).u32(0);
            for (a, t) in areas.iter().zip(want_types.iter()) {
                e = e.u64(a.start_address()).u64(a.size()).u32(*t).u32(0);
            }
            let acc = t.entry_size() == 24 && t.entry_version() == 0 && t.memory_areas() == &areas[..];
            judge(ctx, "MemoryMapTag::new", &*t, &e.done(), MemoryMapTag::ID == TagType::from(6), acc, &J::u(n as u64));
            // EFI descriptors
            let descs: Vec<EFIMemoryDesc> = (0..n)
                .map(|_| EFIMemoryDesc { ty: EFIMemoryAreaType(r.u32()), phys_start: r.next(), virt_start: r.next(), page_count: r.next(), att: EFIMemoryAttribute::from_bits_retain(r.next()) })
                .collect();
            let t = EFIMemoryMapTag::new_from_descs(&descs);
            let mut e = Img::mbi(17).u32(40).u32(1);
            for d in &descs {
                // the 4 bytes after `ty` are padding of the descriptor: unspecified content
                e = e.u32(d.ty.0).u32(0).u64(d.phys_start).u64(d.virt_start).u64(d.page_count).u64(d.att.bits());
            }
            let mut exp = e.done();
            // mask the descriptor padding in the comparison by copying what the tag holds
            let got = unsafe { core::slice::from_raw_parts(&*t as *const _ as *const u8, exp.len().min(core::mem::size_of_val(&*t))) };
            if !cfg!(miri) {
                for i in 0..n {
                    let o = 16 + 40 * i + 4;
                    if o + 4 <= got.len() {
                        exp[o..o + 4].copy_from_slice(&got[o..o + 4]);
                    }
                }
                let back: Vec<_> = catch(|| t.memory_areas().map(|d| (d.ty.0, d.phys_start, d.virt_start, d.page_count, d.att.bits())).collect::<Vec<_>>()).val().unwrap_or_default();
                let want: Vec<_> = descs.iter().map(|d| (d.ty.0, d.phys_start, d.virt_start, d.page_count, d.att.bits())).collect();
                judge(ctx, "EFIMemoryMapTag::new_from_descs", &*t, &exp, true, back == want, &J::u(n as u64));
            }
            // framebuffer, all three colour models
            let pal: Vec<FramebufferColor> = (0..n).map(|_| FramebufferColor { red: r.u8(), green: r.u8(), blue: r.u8() }).collect();
            let a = (r.next(), r.u32(), r.u32(), r.u32(), r.u8());
            let t = FramebufferTag::new(a.0, a.1, a.2, a.3, a.4, FramebufferType::Indexed { palette: &pal });
            let mut e = Img::mbi(8).u64(a.0).u32(a.1).u32(a.2).u32(a.3).u8(a.4).u8(0).u16(0).u16(n as u16);
            for c in &pal {
                e = e.u8(c.red).u8(c.green).u8(c.blue);
            }
            let acc = (t.address(), t.pitch(), t.width(), t.height(), t.bpp()) == a && matches!(catch(|| t.buffer_type()), Out::Val(Ok(FramebufferType::Indexed { palette })) if palette == &pal[..]);
            judge(ctx, "FramebufferTag::new(Indexed)", &*t, &e.done(), FramebufferTag::ID == TagType::from(8), acc, &J::s(format!("{:?} palette {}", a, n)));
            let f = [FramebufferField { position: r.u8(), size: r.u8() }, FramebufferField { position: r.u8(), size: r.u8() }, FramebufferField { position: r.u8(), size: r.u8() }];
            let t = FramebufferTag::new(a.0, a.1, a.2, a.3, a.4, FramebufferType::RGB { red: f[0], green: f[1], blue: f[2] });
            let e = Img::mbi(8).u64(a.0).u32(a.1).u32(a.2).u32(a.3).u8(a.4).u8(1).u16(0).u8(f[0].position).u8(f[0].size).u8(f[1].position).u8(f[1].size).u8(f[2].position).u8(f[2].size);
            let acc = t.buffer_type() == Ok(FramebufferType::RGB { red: f[0], green: f[1], blue: f[2] });
            judge(ctx, "FramebufferTag::new(RGB)", &*t, &e.done(), true, acc, &J::s(format!("{:?}", f)));
            let t = FramebufferTag::new(a.0, a.1, a.2, a.3, a.4, FramebufferType::Text);
            let e = Img::mbi(8).u64(a.0).u32(a.1).u32(a.2).u32(a.3).u8(a.4).u8(2).u16(0);
            judge(ctx, "FramebufferTag::new(Text)", &*t, &e.done(), true, t.buffer_type() == Ok(FramebufferType::Text), &J::Null);
        }
        ctx.rng = r.clone();
    }

    fn header_tags(&self, ctx: &mut Ctx, len: usize) {
        let r = &mut ctx.rng.clone();
        for (fl, flv) in [(h::HeaderTagFlag::Required, 0u16), (h::HeaderTagFlag::Optional, 1)] {
            let a = (r.u32(), r.u32(), r.u32(), r.u32());
            let t = h::AddressHeaderTag::new(fl, a.0, a.1, a.2, a.3);
            let exp = Img::hdr(2, flv).u32(a.0).u32(a.1).u32(a.2).u32(a.3).done();
            let acc = (t.header_addr(), t.load_addr(), t.load_end_addr(), t.bss_end_addr()) == a && t.typ() == h::HeaderTagType::Address && t.flags() == fl && t.size() as usize == exp.len();
            judge(ctx, "AddressHeaderTag::new", &t, &exp, h::AddressHeaderTag::ID as u16 == 2, acc, &J::s(format!("{:?}", a)));
            placed(ctx, "AddressHeaderTag::new", t);
            for (cf, cv) in [(h::ConsoleHeaderTagFlags::ConsoleRequired, 0u32), (h::ConsoleHeaderTagFlags::EgaTextSupported, 1)] {
                let t = h::ConsoleHeaderTag::new(fl, cf);
                let exp = Img::hdr(4, flv).u32(cv).done();
                judge(ctx, "ConsoleHeaderTag::new", &t, &exp, h::ConsoleHeaderTag::ID as u16 == 4, t.console_flags() == cf && t.size() as usize == exp.len(), &J::u(cv as u64));
                placed(ctx, "ConsoleHeaderTag::new", t);
            }
            let a = r.u32();
            let t = h::EntryAddressHeaderTag::new(fl, a);
            judge(ctx, "EntryAddressHeaderTag::new", &t, &Img::hdr(3, flv).u32(a).done(), h::EntryAddressHeaderTag::ID as u16 == 3, t.entry_addr() == a && t.size() == 12, &J::u(a as u64));
            placed(ctx, "EntryAddressHeaderTag::new", t);
            let t = h::EntryEfi32HeaderTag::new(fl, a);
            judge(ctx, "EntryEfi32HeaderTag::new", &t, &Img::hdr(8, flv).u32(a).done(), h::EntryEfi32HeaderTag::ID as u16 == 8, t.entry_addr() == a && t.size() == 12, &J::u(a as u64));
            placed(ctx, "EntryEfi32HeaderTag::new", t);
            let t = h::EntryEfi64HeaderTag::new(fl, a);
            judge(ctx, "EntryEfi64HeaderTag::new", &t, &Img::hdr(9, flv).u32(a).done(), h::EntryEfi64HeaderTag::ID as u16 == 9, t.entry_addr() == a && t.size() == 12, &J::u(a as u64));
            placed(ctx, "EntryEfi64HeaderTag::new", t);
            let a = (r.u32(), r.u32(), r.u32());
            let t = h::FramebufferHeaderTag::new(fl, a.0, a.1, a.2);
            judge(ctx, "FramebufferHeaderTag::new", &t, &Img::hdr(5, flv).u32(a.0).u32(a.1).u32(a.2).done(), h::FramebufferHeaderTag::ID as u16 == 5, (t.width(), t.height(), t.depth()) == a && t.size() == 20, &J::s(format!("{:?}", a)));
            placed(ctx, "FramebufferHeaderTag::new", t);
            let t = h::ModuleAlignHeaderTag::new(fl);
            judge(ctx, "ModuleAlignHeaderTag::new", &t, &Img::hdr(6, flv).done(), h::ModuleAlignHeaderTag::ID as u16 == 6, t.size() == 8 && t.flags() == fl, &J::Null);
            placed(ctx, "ModuleAlignHeaderTag::new", t);
            let t = h::EfiBootServiceHeaderTag::new(fl);
            judge(ctx, "EfiBootServiceHeaderTag::new", &t, &Img::hdr(7, flv).done(), h::EfiBootServiceHeaderTag::ID as u16 == 7, t.size() == 8 && t.flags() == fl, &J::Null);
            placed(ctx, "EfiBootServiceHeaderTag::new", t);
            for (p, pv) in [(h::RelocatableHeaderTagPreference::None, 0u32), (h::RelocatableHeaderTagPreference::Low, 1), (h::RelocatableHeaderTagPreference::High, 2)] {
                let a = (r.u32(), r.u32(), r.u32());
                let t = h::RelocatableHeaderTag::new(fl, a.0, a.1, a.2, p);
                let exp = Img::hdr(10, flv).u32(a.0).u32(a.1).u32(a.2).u32(pv).done();
                judge(ctx, "RelocatableHeaderTag::new", &t, &exp, h::RelocatableHeaderTag::ID as u16 == 10, (t.min_addr(), t.max_addr(), t.align()) == a && t.preference() == p && t.size() == 24, &J::s(format!("{:?} {}", a, pv)));
                placed(ctx, "RelocatableHeaderTag::new", t);
            }
            if len <= 32 {
                let reqs: Vec<h::MbiTagTypeId> = (0..len).map(|_| h::MbiTagTypeId::new(r.u32())).collect();
                let t = h::InformationRequestHeaderTag::new(fl, &reqs);
                let mut e = Img::hdr(1, flv);
                for q in &reqs {
                    e = e.u32(u32::from(*q));
                }
                let exp = e.done();
                judge(ctx, "InformationRequestHeaderTag::new", &*t, &exp, h::InformationRequestHeaderTag::ID as u16 == 1, t.requests() == &reqs[..] && t.size() as usize == exp.len() && t.flags() == fl, &J::u(len as u64));
            }
        }
        // the bare headers
        {
            let (ty, sz) = (r.u32(), r.u32());
            let hd = TagHeader::new(TagType::from(ty), sz);
            let raw = unsafe { core::slice::from_raw_parts(&hd as *const _ as *const u8, 8) };
            ctx.eval();
            if le32(raw, 0) != ty || le32(raw, 4) != sz || u32::from(hd.typ) != ty || hd.size != sz {
                ctx.violation("TagHeader::new:image", J::s(format!("type {} size {} -> {}", ty, sz, hex(raw))));
            }
            let hh = h::HeaderTagHeader::new(h::HeaderTagType::Framebuffer, h::HeaderTagFlag::Optional, sz);
            let raw = unsafe { core::slice::from_raw_parts(&hh as *const _ as *const u8, 8) };
            ctx.eval();
            if le16(raw, 0) != 5 || le16(raw, 2) != 1 || le32(raw, 4) != sz || hh.size() != sz || hh.typ() != h::HeaderTagType::Framebuffer || hh.flags() != h::HeaderTagFlag::Optional {
                ctx.violation("HeaderTagHeader::new:image", J::s(hex(raw)));
            }
        }
        // the terminator: type 0, flags 0, size 8
        let t = h::EndHeaderTag::new();
        judge(ctx, "EndHeaderTag::new", &t, &Img::hdr(0, 0).done(), h::EndHeaderTag::ID as u16 == 0, t.typ() == h::HeaderTagType::End && t.size() == 8, &J::Null);
        placed(ctx, "EndHeaderTag::new", t);
        let t = h::EndHeaderTag::default();
        judge(ctx, "EndHeaderTag::default", &t, &Img::hdr(0, 0).done(), true, t.size() == 8, &J::Null);
        ctx.rng = r.clone();
    }
}

impl Driver for C07 {
    fn ncases(&self, ctx: &Ctx) -> u64 {
        match ctx.tier {
            Tier::Quick => 41 * 40,
            Tier::Thorough => 41 * 2000,
        }
    }
    fn run_case(&mut self, ctx: &mut Ctx, idx: u64) {
        // content lengths 0..=40 cover every padding residue; each case also
        // runs the fixed-size constructors with fresh argument values
        let len = (idx % 41) as usize;
        self.mbi_sized(ctx);
        self.mbi_dst(ctx, len);
        self.header_tags(ctx, len);
    }
}
