#!/bin/bash
# usage: seedverify.sh <seed dir> <crate for demo>  -- confirms a seeded change in a scratch worktree (outside /repo and /verif)
set -u
seed=$1; crate=$2
wt=/tmp/wt-verify
git -C /repo worktree add -q --detach $wt HEAD 2>/dev/null || { git -C $wt checkout -q --detach $(git -C /repo rev-parse HEAD); git -C $wt checkout -- .; }
cd $wt || exit 2
export CARGO_TARGET_DIR=$wt/target
rm -rf $crate/tests
mkdir -p $crate/tests; cp $seed/demo.rs $crate/tests/demo.rs
echo "== demo on unmodified code"; cargo test -p $crate --test demo --offline ${DEMOFLAGS:-} 2>&1 | grep -E "^test result|panicked|error" | head -5
git apply $seed/patch.diff || { echo "PATCH DOES NOT APPLY"; exit 2; }
echo "== demo with change"; cargo test -p $crate --test demo --offline ${DEMOFLAGS:-} 2>&1 | grep -E "^test result|error\[" | head -5
rm -rf $crate/tests
echo "== suite with change"; cargo test --workspace --no-fail-fast --offline 2>&1 | grep -E "^test result|FAILED|error\[" | head -8
echo "== no-default-features build"; cargo build --workspace --no-default-features --offline 2>&1 | grep -E "^error|Finished" | head -3
git checkout -- .; git clean -fdq
