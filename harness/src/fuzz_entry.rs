//! E6: entry point for the coverage-guided (libFuzzer + ASan) exploration of
//! C01 / C09 / C13. The fuzzer supplies raw bytes; the first byte selects how
//! they are framed. The same monitors as in the drivers judge the execution
//! (M2 extents, M3 touch, M5 bounds, C13 reference search); ASan watches the
//! exact heap allocation.

use crate::exercise::{self, Ex, Opts, Tr};
use crate::exercise_hdr;
use crate::region::Region;
use crate::spec::*;
use crate::util::*;
use multiboot2::{BootInformation, BootInformationHeader};
use multiboot2_header::{Multiboot2BasicHeader, Multiboot2Header};
use std::collections::{BTreeMap, HashSet};

pub fn new_ctx(prop: &str) -> Ctx {
    Ctx {
        prop: prop.to_string(),
        seed: 0,
        tier: Tier::Thorough,
        placement: Placement::Heap,
        profile: "fuzz",
        case: 0,
        rng: Rng::new(1),
        counters: BTreeMap::new(),
        distinct: HashSet::new(),
        distinct_overflow: 0,
        samples: vec![],
        viol_sigs: HashSet::new(),
        nviol: 0,
        evaluations: 0,
        trace: false,
        transcript: false,
        case_desc: None,
    }
}

/// Frames `data` and runs the monitors. Returns the signatures of monitors
/// that fired (empty = held on this input).
pub fn fuzz_one(data: &[u8]) -> Vec<String> {
    static INIT: std::sync::Once = std::sync::Once::new();
    INIT.call_once(|| {
        install_panic_hook();
        crate::gen::use_fake_names();
    });
    if data.len() < 2 {
        return vec![];
    }
    // MB2_FUZZ_MODES restricts the framings (e.g. "0,3" for C01, "1" for C09, "2" for C13)
    static MODES: std::sync::OnceLock<Vec<u8>> = std::sync::OnceLock::new();
    let modes = MODES.get_or_init(|| {
        std::env::var("MB2_FUZZ_MODES")
            .ok()
            .map(|v| v.split(',').filter_map(|x| x.trim().parse().ok()).collect::<Vec<u8>>())
            .filter(|v| !v.is_empty())
            .unwrap_or_else(|| vec![0, 1, 2, 3])
    });
    let mode = (data[0] & 0xfc) | modes[(data[0] % 4) as usize % modes.len()];
    let body = &data[1..];
    let mut ctx = new_ctx("fuzz");
    let opts = Opts { debug: mode & 0x20 != 0, debug_whole: mode & 0x40 != 0, strict_extent: false };
    let mut tr = Tr::new(true, false);
    match mode % 4 {
        0 => {
            // boot information: total_size = length of the supplied bytes (multiple of 8, >= 16)
            let n = body.len() & !7;
            if n < 16 {
                return vec![];
            }
            let mut mem = body[..n].to_vec();
            put32(&mut mem, 0, n as u32);
            if mode & 0x10 != 0 {
                put32(&mut mem, n - 8, 0);
                put32(&mut mem, n - 4, 8);
            }
            // known finding KF-VBE-MEMORY-MODEL is skipped inside the exerciser
            let reg = Region::new(Placement::Heap, &mem);
            if let Out::Val(Ok(bi)) = catch(|| unsafe { BootInformation::load(reg.ptr().cast::<BootInformationHeader>()) }) {
                let mut ex = Ex { reg: &reg, tr: &mut tr, opts: &opts };
                ex.mbi(&mut ctx, &bi, &mem);
            }
        }
        1 => {
            let n = body.len() & !7;
            if n < 16 {
                return vec![];
            }
            let mut mem = body[..n].to_vec();
            let arch = if mode & 0x10 != 0 { 4 } else { 0 };
            put32(&mut mem, 0, HDR_MAGIC);
            put32(&mut mem, 4, arch);
            put32(&mut mem, 8, n as u32);
            put32(&mut mem, 12, checksum(HDR_MAGIC, arch, n as u32));
            if !crate::drivers::c09::premise_holds(&mem) {
                return vec![];
            }
            let reg = Region::new(Placement::Heap, &mem);
            if let Out::Val(Ok(h)) = catch(|| unsafe { Multiboot2Header::load(reg.ptr().cast::<Multiboot2BasicHeader>()) }) {
                exercise_hdr::header(&mut ctx, &reg, &mut tr, &opts, &h, &mem);
            }
        }
        2 => {
            // C13: any buffer, compared with the reference search
            let reg = Region::new(Placement::Heap, body);
            let exp = find_header(body);
            let r = catch(|| Multiboot2Header::find_header(reg.as_slice()).map(|o| o.map(|(s, i)| (reg.off_of(s.as_ptr() as usize), s.len(), i))));
            let ok = match (&r, &exp) {
                (Out::Val(Ok(None)), Found::NoHeader) => true,
                (Out::Val(Ok(Some((off, len, idx)))), Found::At(i, l)) => *off == *i as i64 && *len == *l && *idx as usize == *i,
                (Out::Val(Err(_)), Found::Error) => true,
                _ => false,
            };
            if !ok {
                ctx.violation("find_header-differs-from-reference", J::s(format!("{:?} vs {:?}", r, exp)));
            }
        }
        _ => {
            // standalone tag in an allocation of exactly its (rounded) declared size
            if body.len() < 8 {
                return vec![];
            }
            let mut t = body.to_vec();
            let typ = le32(&t, 0) % 24;
            put32(&mut t, 0, typ);
            let declared = (le32(&t, 4) as usize) % (t.len() + 9);
            put32(&mut t, 4, declared as u32);
            let n = round8(declared.max(8));
            t.resize(n, PAD);
            // (VBE memory_model > 7 is skipped inside the exerciser)
            let reg = Region::new_slack(Placement::Heap, &t, sized_view_size(typ).unwrap_or(0));
            exercise::standalone(&mut ctx, &reg, &mut tr, &opts, &t);
        }
    }
    ctx.viol_sigs.into_iter().collect()
}

/// Seeds for the fuzzer's corpus from the structure-aware generator.
pub fn corpus_seeds(n: usize) -> Vec<Vec<u8>> {
    let mut rng = Rng::new(0xc0ffee);
    let mut v = vec![];
    for i in 0..n {
        let mut d = vec![];
        match i % 4 {
            0 => {
                let (mut b, tags) = crate::gen::conformant_mbi(&mut rng, 8);
                if i % 8 == 4 {
                    crate::gen::corrupt_mbi(&mut rng, &mut b, &tags);
                }
                d.push(0x70);
                d.extend_from_slice(&b);
            }
            1 => {
                let (b, _) = crate::gen::conformant_hdr(&mut rng, 8);
                d.push(0x61);
                d.extend_from_slice(&b);
            }
            2 => {
                let (b, _) = crate::gen::conformant_hdr(&mut rng, 3);
                d.push(2);
                d.extend_from_slice(&vec![0x11; 8 * (i % 5)]);
                d.extend_from_slice(&b);
            }
            _ => {
                let (t, _) = crate::drivers::c01::hostile_tag(&mut rng, (i / 4 % 22) as u32);
                d.push(0x23);
                d.extend_from_slice(&t);
            }
        }
        v.push(d);
    }
    v
}
