//! E4/M8: tracking global allocator. When recording is on, every allocation
//! and deallocation is appended to a fixed-size log (no allocation inside the
//! allocator); the driver joins the log with what it knows about the boxes it
//! created and dropped. Off under Miri (Miri checks layouts/leaks itself).

use std::alloc::{GlobalAlloc, Layout, System};
use std::sync::atomic::{AtomicBool, AtomicUsize, Ordering};

#[derive(Clone, Copy, Debug, PartialEq, Eq)]
pub struct Ev {
    pub is_alloc: bool,
    pub ptr: usize,
    pub size: usize,
    pub align: usize,
}

const CAP: usize = 4096;
static RECORDING: AtomicBool = AtomicBool::new(false);
static N: AtomicUsize = AtomicUsize::new(0);
static mut LOG: [Ev; CAP] = [Ev {
    is_alloc: false,
    ptr: 0,
    size: 0,
    align: 0,
}; CAP];

pub struct Ledger;

/// The allocator is also *hostile about alignment*: a block is aligned to exactly
/// what the layout asks for and never to more (address = align mod 2*align), which
/// is what a conforming allocator may do and glibc's malloc (always 16) never does.
/// Code that relies on an alignment it did not request shows up natively, not only
/// under Miri. The block ends flush with the underlying allocation, so ASan's red
/// zone still starts right behind it. New blocks are filled with 0xA5.
#[inline]
fn outer(l: Layout) -> Option<Layout> {
    Layout::from_size_align(l.size().checked_add(l.align())?, l.align().checked_mul(2)?).ok()
}

unsafe impl GlobalAlloc for Ledger {
    unsafe fn alloc(&self, l: Layout) -> *mut u8 {
        let p = match outer(l) {
            Some(o) => {
                let b = System.alloc(o);
                if b.is_null() {
                    b
                } else {
                    // fresh memory is never zero by luck: bytes a constructor forgets to
                    // write (padding excepted) read back as 0xA5
                    core::ptr::write_bytes(b, 0xA5, o.size());
                    b.add(l.align())
                }
            }
            None => core::ptr::null_mut(),
        };
        if RECORDING.load(Ordering::Relaxed) {
            push(Ev {
                is_alloc: true,
                ptr: p as usize,
                size: l.size(),
                align: l.align(),
            });
        }
        p
    }
    unsafe fn dealloc(&self, p: *mut u8, l: Layout) {
        if RECORDING.load(Ordering::Relaxed) {
            push(Ev {
                is_alloc: false,
                ptr: p as usize,
                size: l.size(),
                align: l.align(),
            });
        }
        // a wrong layout here (what C16 watches for) gives the system allocator a
        // pointer it never handed out: glibc aborts, the crash monitor reports it
        System.dealloc(p.sub(l.align()), outer(l).unwrap())
    }
    // realloc: the default (alloc + copy + dealloc), so both events are recorded
}

unsafe fn push(e: Ev) {
    let i = N.fetch_add(1, Ordering::Relaxed);
    if i < CAP {
        let log = &raw mut LOG;
        (*log)[i] = e;
    }
}

#[cfg(not(miri))]
#[global_allocator]
static GLOBAL: Ledger = Ledger;

pub fn available() -> bool {
    cfg!(not(miri))
}

/// Runs `f` with recording on and returns the events it caused.
/// `f` must not allocate more than CAP events (else the tail is dropped and
/// `None` is returned = inconclusive).
pub fn record<T>(f: impl FnOnce() -> T) -> (T, Option<Vec<Ev>>) {
    N.store(0, Ordering::Relaxed);
    RECORDING.store(true, Ordering::SeqCst);
    let r = f();
    RECORDING.store(false, Ordering::SeqCst);
    let n = N.load(Ordering::Relaxed);
    if n > CAP {
        return (r, None);
    }
    let v = unsafe {
        let log = &raw const LOG;
        (&(*log))[..n].to_vec()
    };
    (r, Some(v))
}
