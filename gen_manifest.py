#!/usr/bin/env python3
"""Regenerates MANIFEST.json from plans.py (the single source of truth for what is claimed)."""
import json, os, sys
sys.path.insert(0, os.path.dirname(os.path.abspath(__file__)))
from plans import PLANS, LEVEL_NOTES

props = [json.loads(l) for l in open(os.path.join(os.path.dirname(os.path.abspath(__file__)), "properties.jsonl"))]
TECH = "runtime monitoring: reference-model oracle + extent/touch monitors over generated executions under Miri, native guard pages (dev+release) and ASan"
checks = []
na = []
for p in props:
    pid = p["id"]
    if pid not in PLANS:
        na.append(dict(property_id=pid, reason="monitor not built yet in this round (planned in DESIGN.md section 2); nothing is claimed"))
        continue
    engines = sorted({r["engine"] for t in ("quick", "thorough") for r in PLANS[pid][t]})
    checks.append(dict(
        property_id=pid,
        quick_cmd=f"python3 verif.py check {pid} --tier quick",
        thorough_cmd=f"python3 verif.py check {pid} --tier thorough",
        evidence_file=f"/verif/evidence/{pid}.json",
        replay_cmd_template="python3 verif.py replay {path}",
        engine="mb2mon (" + ", ".join(engines) + ")",
        level_claimed=dict(
            category="exploration",
            text=("Held on the executions observed, nothing more: the real crates run on generated (bounded-exhaustive where stated in the evidence) inputs/histories "
                  "while Miri, PROT_NONE guard pages, ASan and hand-written oracles watch. " + PLANS[pid].get("level_text", "")),
            design_ref=f"DESIGN.md section 2, {pid}",
        ),
        level_note=LEVEL_NOTES.get(pid, "trusted base: the harness' reference model (harness/src/spec.rs), Miri/ASan/the MMU as detectors, rustc; sanitizer silence is not memory safety"),
        technique=PLANS[pid].get("technique", TECH + (", plus coverage-guided libFuzzer+ASan exploration through the same oracle" if "fuzz" in engines else "")),
    ))
m = dict(
    version=1,
    setup_cmd="python3 verif.py setup",
    hooks=dict(guard="mb2_verif", enable="no source hooks are needed: all observation points are at the public API (RUSTFLAGS='--cfg mb2_verif' is reserved)",
               baseline_off_cmd="python3 verif.py baseline-off", source_commits=[], add_only=True),
    engines=[dict(name="mb2mon", path="/verif/harness", serves_properties=[c["property_id"] for c in checks],
                  kind_free_text="Rust harness linked against /repo's crates; built as stable dev/release (guard pages + tracking allocator), nightly ASan, and run under Miri; orchestrated by verif.py")],
    checks=checks,
    not_applicable=na,
    notes="All checks are runtime monitoring (exploration level). Known findings: known_findings.json. See DESIGN.md.",
)
json.dump(m, open(os.path.join(os.path.dirname(os.path.abspath(__file__)), "MANIFEST.json"), "w"), indent=1)
print(f"MANIFEST.json: {len(checks)} checks, {len(na)} not_applicable")
