"""Per-property run plans, non-triviality rules and assumptions (see DESIGN.md §2)."""


def run(engine, **kw):
    d = dict(engine=engine)
    d.update(kw)
    return d


NATIVE2 = lambda **kw: [run("dev", **kw), run("rel", **kw)]

PLANS = {}
RULES = {}
ASSUMPTIONS = {
    "*": [
        "verdicts are about the executions observed, not all inputs: runtime monitoring (Miri / native guard pages / ASan / hand-written oracles)",
        "reference model (harness/src/spec.rs) follows the Multiboot2 spec 2.0 and, where they differ, GRUB's multiboot2.h (ELF counts u32, framebuffer u16 reserved + u16 palette count)",
        "Miri runs with -Zmiri-disable-stacked-borrows -Zmiri-permissive-provenance: aliasing-model errors are not monitored (no property speaks about aliasing)",
        "target x86_64-unknown-linux-gnu, little-endian",
    ],
}
LEVEL_NOTES = {}

# ------------------------------------------------------------------ C02 ----
PLANS["C02"] = dict(
    quick=[run("dev", procs=4), run("rel", procs=4), run("miri", procs=8, extra=[], timeout_s=900), run("asan", procs=2)],
    thorough=[run("dev", procs=8), run("rel", procs=8), run("miri", procs=16, density=8, timeout_s=3000), run("miri-rel", procs=16, density=16, timeout_s=3000), run("asan", procs=4)],
    exhaustive=dict(quick=True, thorough=True),
    exhaustive_domain=dict(
        quick="null pointer; total_size 0..=256 x reserved {0, marker} x 8 shapes of the last 8 bytes; 84 sampled sizes up to 1 MiB",
        thorough="null pointer; total_size 0..=8192 x reserved {0, marker} x 8 shapes of the last 8 bytes; 84 sampled sizes up to 1 MiB (Miri: a seed-chosen 1/8 resp. 1/16 slice)",
    ),
)
RULES["C02"] = ("bounded-exhaustive grid: every total_size in the range x reserved word {0, random odd marker} x last-8-bytes shape "
                "{end tag, type!=0, size 0/7/9/16/0xffffffff, random}; region = exactly max(total_size, 8) bytes. Every grid point is a "
                "distinct input; it counts as non-trivial because the load verdict was compared with the reference precedence "
                "(and start/end/total_size/as_ptr on success). distinct = distinct (total_size, reserved, shape) hashes.")
ASSUMPTIONS["C02"] = ["pointer is 8-aligned and (when non-null) backed by max(total_size, 8) readable bytes, as the property states"]

# ------------------------------------------------------------------ C03 ----
PLANS["C03"] = dict(
    quick=[run("dev"), run("rel"), run("asan", procs=4), run("miri", procs=16, density=24, max_cases=60, timeout_s=900)],
    thorough=[run("dev"), run("rel"), run("asan", procs=8), run("miri", procs=16, density=40, budget_s=450, timeout_s=3000), run("miri-rel", procs=16, density=80, budget_s=450, timeout_s=3000)],
    exhaustive=dict(quick=True, thorough=True),
    exhaustive_domain=dict(
        quick="native: the complete tree of declared-size sequences (every size 0..=remaining+9 at every walk position) over areas of 8..=48 bytes, directly through TagIter and through load()+tags(); plus 20000 random longer walks. Miri/ASan: slices of the same case space",
        thorough="same tree over areas of 8..=72 bytes (~1.1e6 walks) plus 400000 random walks",
    ),
)
RULES["C03"] = ("cases: (a) every leaf of the size tree — at each walk position every declared size 0..=remaining+9, until the walk completes or must panic — for "
                "every area size up to the bound, once via multiboot2::TagIter::new and once via BootInformation::load()+tags() (+fresh iterator, module iterator, "
                "and for 1/4 of them a random next()/clone()/fresh history over <=4 iterators stepped against an index model); (b) random walks of <=64 tags with "
                "one size corrupted in 1/3 of them. Non-trivial: the reference walk has >=2 tags or ends in a required panic. distinct = hash of (mode, tag sizes, types, end kind, offending size).")
ASSUMPTIONS["C03"] = ["a type-3 tag smaller than the module's fixed part (16) may be rejected by a panic when the module iterator reaches it (C05)"]

# ------------------------------------------------------------------ C14 ----
PLANS["C14"] = dict(
    quick=[run("dev"), run("rel"), run("asan", procs=4), run("miri", procs=16, density=20, max_cases=16, timeout_s=900)],
    thorough=[run("dev"), run("rel"), run("asan", procs=8), run("miri", procs=16, density=4, timeout_s=3400), run("miri-rel", procs=16, density=8, timeout_s=3400)],
    exhaustive=dict(quick=True, thorough=True),
    exhaustive_domain=dict(
        quick="native: 8 header kinds x slice length 0..=72 x start offset 0..=7 x declared size 0..=len+16 (+BytesRef on the same grid); rounding law for all x < 2^26 and +-64 around every power of two up to 2^32",
        thorough="same grid; rounding law for all x < 2^32",
    ),
)
RULES["C14"] = ("bounded-exhaustive grid (header kind, slice length, start misalignment, declared size) for TagHeader, BootInformationHeader, HeaderTagHeader, "
                "Multiboot2BasicHeader, the crate's DummyTestHeader and harness headers of 8/16/24 bytes; each grid point is judged against the specified error precedence and, on success, "
                "address/header/payload/size_of_val identities. Rounding law in blocks of 2^20 arguments. distinct = hash of the grid point / block; every grid point is a distinct input "
                "(set capped per shard, overflow reported as distinct_cap_overflow).")
ASSUMPTIONS["C14"] = ["a declaration below the header size may be rejected by an error or a panic, or yield a header-only structure (as the property allows)"]

# ------------------------------------------------------------------ C20 ----
PLANS["C20"] = dict(
    quick=[run("dev"), run("rel"), run("miri", procs=8, density=2, max_cases=12, timeout_s=900)],
    thorough=[run("rel", timeout_s=3000), run("dev", density=64, timeout_s=3000), run("miri", procs=16, density=128, timeout_s=3000)],
    exhaustive=dict(quick=False, thorough=True),
    exhaustive_engines=dict(thorough=["rel"]),
    exhaustive_domain=dict(
        quick="not exhaustive: x < 2^20, the 65536-value blocks around every ELF range boundary / 2^31 / 2^32, 256 seed-chosen blocks (2^24 values); all 256 framebuffer type bytes x 3 colour-info shapes",
        thorough="release build: all 2^32 values for every law (tag type, memory-area type, ELF classification in both layouts at boundaries); dev build and Miri: 1/64 resp. sampled",
    ),
)
RULES["C20"] = ("every u32 value is its own case: all conversion/equality laws for TagType/TagTypeId, MemoryAreaType/MemoryAreaTypeId, and ElfSection::section_type() observed by rewriting "
                "the raw type word of a one-entry ELF tag (ELF32 for even, ELF64 for odd values, both around range boundaries); evaluations counts values. "
                "distinct_nontrivial counts distinct 65536-value blocks (each block = 65536 distinct values, so distinct values = 65536 x blocks natively) plus the 768 (type byte, shape) framebuffer cases.")

# ------------------------------------------------------------------ C10 ----
PLANS["C10"] = dict(
    quick=[run("dev"), run("rel"), run("miri", procs=16, density=2, max_cases=10, timeout_s=900), run("asan", procs=4, density=4)],
    thorough=[run("dev", timeout_s=3000), run("rel", timeout_s=3000), run("miri", procs=16, density=16, timeout_s=3000)],
    exhaustive=dict(quick=False, thorough=True),
    exhaustive_domain=dict(
        quick="checksum law: 128 blocks of 2^20 lengths (incl. the blocks where magic+arch+length crosses 2^32) x both architectures + 2^20 random (magic, arch, length) triples; load: every length 0..=256 x 2 archs x {right, wrong magic} x {right, off-by-one, random checksum}, 60 sampled lengths up to 1 MiB",
        thorough="checksum law: all 2^32 lengths x both architectures for the specified magic, in the dev and the release build; load grid with every length 0..=8192",
    ),
)
RULES["C10"] = ("checksum law evaluated per (length, architecture) value in blocks of 2^20 lengths, plus random (magic, arch, length) triples; load grid: (length, arch, magic right/wrong, checksum right/off-by-one/random), "
                "region = exactly max(length, 16) bytes, verdict compared with the specified precedence. distinct = law blocks + distinct load grid points.")
ASSUMPTIONS["C10"] = ["architecture field holds a defined value (0 or 4), as the property states"]

# ------------------------------------------------------------------ C13 ----
PLANS["C13"] = dict(
    quick=[run("dev"), run("rel"), run("asan", procs=8), run("miri", procs=16, density=2, max_cases=2, timeout_s=900)],
    thorough=[run("dev"), run("rel"), run("asan"), run("miri", procs=16, density=1, max_cases=12, timeout_s=3000), run("fuzz", modes="2", secs=180)],
)
RULES["C13"] = ("buffer lengths: every 0..=96, 8150..=8230, 16340..=16400 and seed-chosen others <= 16 KiB; per length: no magic; magic at 0/4/8, at len-16..len, at 8180..=8196 and two random positions, "
                "each with stored length in {0, 8, 16, rest-1, rest, rest+1, rest&~7, 2^31, 2^32-1}; two occurrences (misaligned then aligned and the reverse). Filler bytes cannot form the magic. "
                "Result compared (pointer, length, index / None / Err) with the reference search. distinct = hash of (buffer length, first magic position, stored length).")

# ------------------------------------------------------------------ C16 ----
PLANS["C16"] = dict(
    quick=[run("dev"), run("rel"), run("asan", procs=8), run("miri", procs=16, density=3, max_cases=9, timeout_s=900)],
    thorough=[run("dev"), run("rel"), run("asan"), run("miri", procs=16, density=1, timeout_s=3000)],
    exhaustive=dict(quick=True, thorough=True),
    exhaustive_domain=dict(
        quick="native: all compositions of total content 0..=24 into 0..=4 slices (empty ones included) for 3 DST types; 10 DST constructors x content lengths 0..=40; clone of each",
        thorough="same with total content 0..=48",
    ),
)
RULES["C16"] = ("cases: every composition of n content bytes into k slices for DummyDstTag, DynSizedStructure<TagHeader> and a harness DST with a 16-byte header; every DST constructor of both crates with each content length; "
                "clone_dyn of every object; clones of built boot informations/headers. Judged: size field, byte image, 8-alignment, size_of_val, and (native) the allocation ledger: one alloc of (round8(total), 8) at the object's address, "
                "one dealloc with the same triple on drop. Under Miri the interpreter checks dealloc layout, double free and leaks instead. distinct = hash of (type, composition) / (constructor, length).")

# ------------------------------------------------------------------ C17 ----
PLANS["C17"] = dict(
    quick=[run("dev"), run("rel"), run("asan", procs=8), run("miri", procs=16, density=60, max_cases=30, timeout_s=900)],
    thorough=[run("dev", timeout_s=3000), run("rel", timeout_s=3000), run("asan", density=8), run("miri", procs=16, density=400, timeout_s=3000)],
    exhaustive=dict(quick=True, thorough=True),
    exhaustive_domain=dict(
        quick="native: all byte words of length 0..=4 over {00,'a',' ',C3,A9,E2,82,AC,80,FF} x 3 string-tag kinds x every declared size fixed..=fixed+len+2 x {0xEE, NUL} fill, standalone and (lengths<=3 and every 4th word) embedded; constructors: all strings of <=4 chars over {a, space, e-acute, euro, U+10348, NUL} + 200 random strings <= 1 KiB",
        thorough="same with words of length 0..=6",
    ),
)
RULES["C17"] = ("parser cases: (kind, word, declared size, fill, standalone/embedded); expected = bytes before the first NUL inside tag[fixed..size] if valid UTF-8, MissingNul / Utf8 otherwise; returned text compared by content and address. "
                "constructor cases: read-back, stored bytes and size for NUL-free strings; stored-as-is for strings ending in NUL. distinct = hash of (word, kind) resp. (string, kind).")

# ------------------------------------------------------------------ C05 ----
PLANS["C05"] = dict(
    quick=[run("dev"), run("rel"), run("asan", procs=8), run("miri", procs=16, timeout_s=900), run("miri-rel", procs=16, density=2, timeout_s=900)],
    thorough=[run("dev"), run("rel"), run("asan"), run("miri", procs=16, timeout_s=3000), run("miri-rel", procs=16, timeout_s=3000)],
    exhaustive=dict(quick=True, thorough=True),
    exhaustive_domain=dict(
        quick="13 variable-length kinds of both crates x every declared size 0..=FIXED+3*ELEM+16, standalone (exact allocation) and embedded before a marker tag; 3 declarations beyond the region per kind",
        thorough="same",
    ),
)
RULES["C05"] = ("cases: (kind, declared size, standalone/embedded); the exposed part's (offset, element count) and the view's in-memory size must equal (FIXED, (size-FIXED)/ELEM, round8(size)); "
                "size < FIXED or a remainder must be rejected by a panic. Observables: public slice getters where they exist; for private parts size_of_val, len()*desc_size, and the element count in derived Debug output (network). "
                "distinct = hash of (kind, size, embedded).")
ASSUMPTIONS["C05"] = ["string kinds: the last declared byte is NUL and the text ASCII, so the returned length reveals the extent", "EFI map bytes are observed with descriptor size 40 / version 1; sizes whose map length is not a multiple of 40 must be rejected (C18)"]

# ------------------------------------------------------------------ C15 ----
PLANS["C15"] = dict(
    quick=[run("dev"), run("rel"), run("asan", procs=8), run("miri", procs=16, density=4, timeout_s=900)],
    thorough=[run("dev"), run("rel"), run("asan"), run("miri", procs=16, timeout_s=3000), run("miri-rel", procs=16, timeout_s=3000)],
    exhaustive=dict(quick=True, thorough=True),
    exhaustive_domain=dict(
        quick="89 target types (7 sized with 0..=6 extra words; 30 DST shapes: fixed part 8/12/16/20/24 x element size 1/2/3/4/8/24, each asserting and flooring; 22 built-in kinds) x every tag size 8..=96 (VBE: 744..=832), via cast on a standalone tag and via get_tag on a loaded boot information; Miri: 1/4 slice",
        thorough="same, complete under Miri (dev and release MIR)",
    ),
)
RULES["C15"] = ("cases: (target type, tag size); outcome must be a panic or a view at the tag's address whose size_of_val equals the tag size rounded up to 8; every byte of the view is read (M3). distinct = hash of (type, size).")
ASSUMPTIONS["C15"] = ["VBE tags carry a defined memory_model byte (values > 7 are the known finding KF-VBE-MEMORY-MODEL)"]

# ------------------------------------------------------------------ C18 ----
PLANS["C18"] = dict(
    quick=[run("dev"), run("rel"), run("asan", procs=8), run("miri", procs=16, density=4, timeout_s=900)],
    thorough=[run("dev"), run("rel"), run("asan"), run("miri", procs=16, timeout_s=3000), run("miri-rel", procs=16, timeout_s=3000)],
    exhaustive=dict(quick=True, thorough=True),
    exhaustive_domain=dict(
        quick="descriptor size 0..=128 x version {1, 0, 2, random} x map length in {k*d, k*d+-1, k*d+-8 : k = 0..=4}, standalone and embedded; every prefix of the iteration for len(); Miri: every fourth case",
        thorough="same, complete under Miri (dev and release MIR)",
    ),
)
RULES["C18"] = ("cases: (desc_size, version, map length, standalone/embedded) with random descriptor bytes; acceptable combinations: item count, item addresses, decoded fields, len() after every next(), clone; "
                "any other combination must panic before an item is produced. distinct = hash of the case tuple.")

# ------------------------------------------------------------------ C19 ----
PLANS["C19"] = dict(
    quick=[run("dev"), run("rel"), run("asan", procs=8), run("miri", procs=16, density=6, timeout_s=900)],
    thorough=[run("dev"), run("rel"), run("asan"), run("miri", procs=16, budget_s=500, timeout_s=3000), run("miri-rel", procs=16, density=2, budget_s=500, timeout_s=3000)],
    exhaustive_domain=dict(
        quick="entry count 0..=5 x entry size 0..=128 x string-table index {0..=n+1, 2^16, 2^32-1} x section byte length {0, n*e, n*e+-1, n*e+-8} (full cross product for entry sizes 40, 64 and multiples of 8, 1/4 sample elsewhere), via sections() standalone, via elf_sections_tag().sections() and the deprecated elf_sections(); 2000 random conformant tags",
        thorough="same + 20000 random conformant tags",
    ),
)
RULES["C19"] = ("cases: (n, entsize, shndx, section byte length) with raw types from every class; conformant tags: yielded sequence = in-use entries in order with type/flags/address/size/alignment decoded per layout and names through the designated "
                "string-table entry (which points at a harness buffer below 4 GiB); otherwise a panic is required before anything is produced (string-table index outside the tag: by the time a name is resolved). distinct = hash of the case tuple.")
ASSUMPTIONS["C19"] = ["ELF section names live at an external address (documented exception): the string-table entry's address field is set to a harness-owned buffer",
                      "n = 0 may yield nothing or be rejected", "ElfSection::end_address() is compared only where addr+size does not overflow"]

# ------------------------------------------------------------------ C01 ----
PLANS["C01"] = dict(
    quick=[run("dev", procs=8, max_cases=120000, budget_s=35), run("rel", procs=8, max_cases=400000, budget_s=35), run("asan", procs=8, max_cases=150000, budget_s=35, timeout_s=900),
           run("miri", procs=16, density=4096, budget_s=55, timeout_s=900), run("miri-rel", procs=8, density=8192, budget_s=45, timeout_s=900),
           run("dev", driver="C01vbe", procs=1, timeout_s=120), run("rel", driver="C01vbe", procs=1, timeout_s=120), run("fuzz", modes="0,3", secs=30)],
    thorough=[run("dev", max_cases=1500000, budget_s=200, timeout_s=3000), run("rel", max_cases=6000000, budget_s=200, timeout_s=3000), run("asan", max_cases=2000000, budget_s=200, timeout_s=3000),
              run("miri", procs=16, density=4096, budget_s=450, timeout_s=3000), run("miri-rel", procs=16, density=4096, budget_s=450, timeout_s=3000),
              run("dev", driver="C01vbe", procs=1, timeout_s=120), run("rel", driver="C01vbe", procs=1, timeout_s=120), run("miri", driver="C01vbe", procs=1, timeout_s=300),
              run("fuzz", modes="0,3", secs=300)],
)
RULES["C01"] = ("cases: 2/3 boot informations — a spec-conformant region over all 22 kinds + custom types (harness' own encoder, byte-marked contents) that is kept (1/16), hit by 1..3 targeted corruptions of "
                "total_size / tag sizes / count, stride, index and type fields with boundary values (12/16), blind-mutated (2/16) or fully random (1/16); region = exactly max(total_size, 8) bytes flush against a guard page "
                "(1/16 left-flush) resp. an exact allocation; if load() succeeds the whole program of safe calls runs (walk, 21 getters + every accessor, both memory maps iterated, palette, checksums, ELF sections incl. deprecated getter, "
                "modules, Debug of every tag / iterator / the whole structure into a counting sink). 1/3 standalone tags of each kind with hostile sizes and count fields in an allocation of exactly the declared size. "
                "Monitors: Miri / guard pages / ASan for reads outside, M2 extent containment (view inside its tag), M3 touch, M5 step bounds. Non-trivial: load succeeded and >=1 kind-specific accessor ran (or, standalone, the cast succeeded). distinct = hash of the region / tag bytes.")
ASSUMPTIONS["C01"] = ["ELF section names: name() is only called when the designated string-table entry points at the harness' name buffer, or lies outside the tag (then it must be rejected)",
                      "known finding KF-VBE-MEMORY-MODEL: on VBE tags whose memory_model byte is > 7 the call sites mode_info()/Debug are skipped by the main workload and run by the probe driver C01vbe in a child process",
                      "termination is decided as bounded progress (item counts, Debug output size); the wall-clock watchdog is separate and inconclusive when it fires"]
LEVEL_NOTES["C01"] = "trusted base: Miri (UB interpreter), the MMU (guard pages), ASan red zones, the harness' extent arithmetic; reads that leave a tag but stay inside the region and influence no returned extent are only visible in the standalone-tag runs"

# ------------------------------------------------------------------ C09 ----
PLANS["C09"] = dict(
    quick=[run("dev", procs=8, max_cases=150000, budget_s=30), run("rel", procs=8, max_cases=400000, budget_s=30), run("asan", procs=8, max_cases=150000, budget_s=30, timeout_s=900),
           run("miri", procs=16, density=4096, budget_s=50, timeout_s=900), run("fuzz", modes="1", secs=30)],
    thorough=[run("dev", max_cases=1500000, budget_s=200, timeout_s=3000), run("rel", max_cases=6000000, budget_s=200, timeout_s=3000), run("asan", max_cases=2000000, budget_s=200, timeout_s=3000),
              run("miri", procs=16, density=4096, budget_s=450, timeout_s=3000), run("miri-rel", procs=16, density=4096, budget_s=450, timeout_s=3000),
              run("fuzz", modes="1", secs=240)],
)
RULES["C09"] = ("cases: conformant header (11 kinds, defined enum values, 0..10 tags + end tag) kept (1/12), payload words randomised (1/12) or hit by 1..2 boundary-value corruptions of the header length / tag sizes (checksum recomputed so it still loads); "
                "region = exactly max(length, 16) bytes; inputs where the walk would reach an undefined enum value are outside the property's premise and skipped (counted). If load() succeeds: accessors, full walk, 10 typed getters + accessors, "
                "requests slice, Debug of header/tags/iterator. Monitors as C01. Non-trivial: loaded and >=1 typed getter returned a tag. distinct = hash of the header bytes.")
ASSUMPTIONS["C09"] = ["architecture, tag type, tag flags, console flags and relocation preference hold defined values on everything the walk reaches (the property's premise)"]

# ------------------------------------------------------------------ C04 ----
PLANS["C04"] = dict(
    quick=[run("dev", budget_s=50), run("rel", budget_s=50), run("asan", procs=8, density=2, budget_s=50), run("miri", procs=16, density=40, budget_s=70, timeout_s=900), run("miri-rel", procs=8, density=160, budget_s=60, timeout_s=900)],
    thorough=[run("dev", budget_s=500, timeout_s=3000), run("rel", budget_s=500, timeout_s=3000), run("asan", budget_s=400, timeout_s=3000), run("miri", procs=16, density=100, budget_s=500, timeout_s=3000), run("miri-rel", procs=16, density=100, budget_s=500, timeout_s=3000)],
)
RULES["C04"] = ("cases: all 256 framebuffer type bytes x 3 colour-info shapes (with a second, well-formed framebuffer tag behind); every kind alone and twice; random conformant regions (<=14 tags over all 22 kinds + custom types, multiplicities by repetition, byte-marked contents, "
                "EFI map with/without a boot-services tag in either order forced in 1/8). Every typed getter must return the first tag of its type by address (or None); every public accessor is compared with the little-endian value at the specified offset. "
                "Non-trivial: >=1 field compared. distinct = hash of the region.")
ASSUMPTIONS["C04"] = ["VBE memory_model in 0..=7; RSDP v2 length in {20, 36}; memory-map entry_size 24; module end > start (spec-conformant tags, as the property states)"]

# ------------------------------------------------------------------ C11 ----
PLANS["C11"] = dict(
    quick=[run("dev", budget_s=40), run("rel", budget_s=40), run("asan", procs=8, density=2, budget_s=40), run("miri", procs=16, density=40, budget_s=60, timeout_s=900)],
    thorough=[run("dev", budget_s=400, timeout_s=3000), run("rel", budget_s=400, timeout_s=3000), run("asan", budget_s=400, timeout_s=3000), run("miri", procs=16, density=100, budget_s=500, timeout_s=3000), run("miri-rel", procs=16, density=100, budget_s=500, timeout_s=3000)],
)
RULES["C11"] = ("cases: information-request lists of every length 0..=32; every kind alone and twice; random conformant headers (<=12 tags, both architectures). Header accessors, the walk (address, type, flags, size, payload length, in-memory size of every item) "
                "and every typed getter/accessor are compared with the reference decode. distinct = hash of the header bytes.")

# ------------------------------------------------------------------ C07 ----
PLANS["C07"] = dict(
    quick=[run("dev"), run("rel"), run("asan", procs=8), run("miri", procs=16, density=2, max_cases=3, timeout_s=900)],
    thorough=[run("dev", timeout_s=3000), run("rel", timeout_s=3000), run("asan", timeout_s=3000), run("miri", procs=16, density=40, budget_s=900, timeout_s=3000)],
)
RULES["C07"] = ("cases: per case every public constructor/default() of both crates (22 boot-information constructors incl. 3 framebuffer colour models and both EFI-map constructors, 13 header-tag constructors) with fresh random argument values (every argument byte marked), "
                "DST content length = case index mod 41. Judged: type field vs. specified number and the kind's ID constant, size field vs. unpadded byte count, bytes vs. the reference encoding, accessor read-back, as_bytes() in place and when embedded after a u32 in a repr(C) struct. "
                "distinct = hash of (constructor, expected image).")
ASSUMPTIONS["C07"] = ["constructors that document an argument panic (ModuleTag::new with end <= start, new_from_map with desc_size 0) are called with arguments outside that range",
                      "the 4 padding bytes inside each EFIMemoryDesc written by new_from_descs are unspecified and masked in the comparison (natively; skipped under Miri)"]

# ------------------------------------------------------------------ C06 ----
PLANS["C06"] = dict(
    quick=[run("dev", budget_s=60), run("rel", budget_s=60), run("asan", procs=8, density=2, budget_s=50), run("miri", procs=16, density=400, budget_s=70, timeout_s=900)],
    thorough=[run("dev", budget_s=900, timeout_s=3400), run("rel", timeout_s=3400), run("asan", density=8, budget_s=600, timeout_s=3000), run("miri", procs=16, density=64, budget_s=900, timeout_s=3000)],
    exhaustive=dict(quick=False, thorough=True),
    exhaustive_engines=dict(thorough=["rel"]),
    exhaustive_domain=dict(
        quick="all subsets of the 22 builder slots of size <= 2 and >= 20 (in random call order), 50000 random subsets, 20000 random call sequences of length 0..=40 with repeats and random contents",
        thorough="release build: all 2^22 subsets of the 22 builder slots (fixed small contents, random call order) + 400000 random call sequences; dev/ASan/Miri: budgeted slices",
    ),
)
RULES["C06"] = ("cases: histories of builder calls; model = last-wins slot map + append-only vectors (modules, SMBIOS, custom tags). After build(): 8-alignment, load() succeeds, total_size == byte length, walk ends in exactly one end tag, "
                "multiset of walked tags (bytes up to their size) == model, repeatable kinds in call order. distinct = hash of the call sequence.")

# ------------------------------------------------------------------ C12 ----
PLANS["C12"] = dict(
    quick=[run("dev"), run("rel"), run("asan", procs=8), run("miri", procs=16, density=8, budget_s=70, timeout_s=900)],
    thorough=[run("dev", timeout_s=3000), run("rel", timeout_s=3000), run("asan", timeout_s=3000), run("miri", procs=16, density=16, budget_s=900, timeout_s=3000)],
    exhaustive=dict(quick=True, thorough=True),
    exhaustive_domain=dict(
        quick="native: all 2^10 subsets of the header-builder slots x both architectures (random call order), information-request lists of every length 0..=32 x both architectures, 20000 random call sequences (length <= 24, repeats)",
        thorough="same with 400000 random call sequences",
    ),
)
RULES["C12"] = ("cases: histories of header-builder calls; model = last-wins slot map. After build(): 8-alignment, load() succeeds, magic, architecture, length == byte length, valid checksum, terminating end tag (type 0, flags 0, size 8), "
                "multiset of walked tags == model. distinct = hash of (architecture, call sequence, request count).")

# ------------------------------------------------------------------ C08 ----
C08_ENGINES = ["dev", "rel", "nd-dev", "nd-rel", "al-dev", "al-rel"]


def c08_post(results, tier, seed, logdir):
    """E5: compare the block hashes of the six configurations; on a mismatch
    re-run that block with full transcripts and report the first differing case."""
    import subprocess
    from engines import run_cmd, engine_env, HARNESS
    by_shard = {}
    for (engine, args, shard, nshards, *_), r in results:
        if engine not in C08_ENGINES:
            continue
        by_shard.setdefault((shard, nshards), {})[engine] = (r, args)
    viol, inc = [], []
    blocks_compared = 0
    mism = 0
    for (shard, nshards), per in sorted(by_shard.items()):
        if set(per) != set(C08_ENGINES):
            inc.append(f"C08 shard {shard}/{nshards}: not all configurations ran ({sorted(per)})")
            continue
        if any(len(r.summaries) != 1 or r.crashes for r, _ in per.values()):
            inc.append(f"C08 shard {shard}/{nshards}: a configuration restarted or crashed; block comparison skipped for this shard")
            continue
        ref = per["dev"][0].tblocks
        common = set(ref)
        for e in C08_ENGINES:
            blocks = set(per[e][0].tblocks)
            if per[e][0].summaries[0].get("cut_by_budget") and blocks:
                blocks.discard(max(blocks))  # the block the time budget interrupted is incomplete
            common &= blocks
        for b in sorted(common):
            hs = {e: per[e][0].tblocks[b] for e in C08_ENGINES}
            blocks_compared += 1
            if len(set(hs.values())) == 1:
                continue
            mism += 1
            if mism > 5:
                continue
            # full transcripts of that block in every configuration
            tr = {}
            for e in C08_ENGINES:
                args = list(per[e][1]) + ["--shard", f"{shard}/{nshards}", "--from", str(b), "--max-cases", "64", "--transcript"]
                p = subprocess.run(run_cmd(e, args), env=engine_env(e), cwd=HARNESS, stdout=subprocess.PIPE, stderr=subprocess.DEVNULL)
                cases = {}
                for line in p.stdout.decode("utf-8", "replace").splitlines():
                    if line.startswith("T "):
                        _, c, rest = line.split(" ", 2)
                        cases.setdefault(int(c), []).append(rest)
                tr[e] = cases
            found = False
            for c in sorted(tr["dev"]):
                lines = {e: tr[e].get(c, []) for e in C08_ENGINES}
                if len({tuple(v) for v in lines.values()}) > 1:
                    # first differing line
                    n = max(len(v) for v in lines.values())
                    k = next(i for i in range(n) if len({(v[i] if i < len(v) else None) for v in lines.values()}) > 1)
                    call = (lines["dev"][k] if k < len(lines["dev"]) else lines["rel"][k]).strip().split(" ")[0]
                    viol.append(dict(property="C08", sig=f"configuration-dependent:{call}", case=c, engine="dev",
                                     args=list(per["dev"][1]) + ["--transcript"],
                                     detail=dict(what="the canonical transcript of this case differs between configurations",
                                                 line_index=k, lines={e: (lines[e][k] if k < len(lines[e]) else None) for e in C08_ENGINES},
                                                 context={e: lines[e][max(0, k - 3):k + 2] for e in C08_ENGINES})))
                    found = True
                    break
            if not found:
                inc.append(f"C08 block {b} of shard {shard}/{nshards}: hashes differ but the re-run transcripts agree (non-deterministic?)")
    cov = dict(blocks_compared=blocks_compared, block_mismatches=mism, configurations=C08_ENGINES,
               excluded_from_transcript=["Debug output", "MemoryArea::end_address / ModuleTag::module_size / ElfSection::end_address where the arithmetic on decoded values overflows",
                                         "VBE mode_info()/Debug on memory_model > 7 (known finding KF-VBE-MEMORY-MODEL)", "ELF section names (external addresses differ per process)"])
    if blocks_compared == 0:
        inc.append("C08: no block was compared across configurations")
    return viol, cov, inc


PLANS["C08"] = dict(
    quick=[run(e, max_cases=120000, budget_s=70, timeout_s=900) for e in C08_ENGINES],
    thorough=[run(e, max_cases=3000000, budget_s=900, timeout_s=3400) for e in C08_ENGINES],
    post=c08_post,
    technique="runtime monitoring: cross-configuration transcript differencing (same generated cases in dev/release x default / alloc-only / no-default-features builds, canonical address-free transcripts compared by block hash)",
)
RULES["C08"] = ("cases (hash-selected mix): boot informations conformant/corrupted/blind-mutated (3/10), headers conformant/corrupted (2/10), declared sizes below/around each header size (total_size 0..=16, header length 0..=32, tag sizes 0..=16 in both crates) (1/10), "
                "all 256 framebuffer type bytes (1/10), calc_checksum at extreme arguments and find_header on generated images (1/10), DynSizedStructure::ref_from_slice for the crates' four header types (1/10), hostile standalone tags (1/10). "
                "Per case a canonical transcript (load verdict, walk, every getter and stored-field accessor, every extent as region offsets, outcomes as Val/Err(kind)/Panic) is hashed; the six configurations ({dev, release} x {default features, `alloc` only, no features}) must agree block by block (64 cases). "
                "Budget cut-offs make the configurations cover different prefixes; only blocks present in all six are compared. distinct = hash of (transcript, case index) for cases that reached a decoder.")
ASSUMPTIONS["C08"] = ["all six binaries are built from the same harness source and run the same deterministic case generator (seeded by VERIF_SEED)",
                      "header-crate inputs keep enumerated fields defined (C09's premise)"]
