#!/usr/bin/env python3
"""usage: storeseed.py <sNN-slug> <property> <src seed dir> <demo crate> <needs_to_manifest> [round]
Stores a confirmed seeded change under /verif/seeded/ (patch.diff, demo.rs, notes.md, meta.json)."""
import sys, os, shutil, json
name, prop, src, crate, needs = sys.argv[1:6]
rnd = sys.argv[6] if len(sys.argv) > 6 else "5"
d = os.path.join(os.path.dirname(os.path.abspath(__file__)), "seeded", name)
os.makedirs(d, exist_ok=True)
for f in ("patch.diff", "demo.rs", "notes.md"):
    if os.path.exists(os.path.join(src, f)):
        shutil.copy(os.path.join(src, f), os.path.join(d, f))
meta = {
 "property": prop,
 "needs_to_manifest": needs,
 "demo": f"copy demo.rs to {crate}/tests/demo.rs; cargo test -p {crate} --test demo --offline",
 "origin": f"round {rnd}: fresh sub-agent; saw only the property text, short names of all earlier changes for that property, suggested directions, and a scratch worktree",
 "confirmed": {"how": "/verif/seedverify.sh in a scratch worktree under /tmp", "suite_with_change": "59 unit tests + doctests pass",
               "demo_unmodified": "pass", "demo_with_change": "fail", "no_default_features_build": "ok"},
 "detected_by": [],
 "ran": "./seedtest_alt.sh <patch> quick <checks>",
}
json.dump(meta, open(os.path.join(d, "meta.json"), "w"), indent=1)
print(d)
