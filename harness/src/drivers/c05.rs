//! C05 — variable-length tag contents have exactly the extent the tag size
//! implies.

use super::Driver;
use crate::region::Region;
use crate::spec::{MbiBuf, HdrBuf};
use crate::util::*;
use multiboot2::{
    BootInformation, BootInformationHeader, BootLoaderNameTag, CommandLineTag, EFIMemoryMapTag, ElfSectionsTag, FramebufferTag,
    FramebufferType, MemoryMapTag, ModuleTag, NetworkTag, SmbiosTag, TagHeader,
};
use multiboot2_common::DynSizedStructure;
use multiboot2_header::{HeaderTagHeader, InformationRequestHeaderTag, Multiboot2BasicHeader, Multiboot2Header};

pub struct C05;

/// (name, type, FIXED, ELEM)
const KINDS: [(&str, u32, usize, usize); 13] = [
    ("cmdline", 1, 8, 1),
    ("loader", 2, 8, 1),
    ("module", 3, 16, 1),
    ("mmap", 6, 16, 24),
    ("smbios", 13, 16, 1),
    ("elf", 9, 20, 1),
    ("efi_mmap", 17, 16, 1),
    ("network", 16, 8, 1),
    ("fb-indexed", 8, 32, 1),
    ("fb-rgb", 8, 32, 1),
    ("generic-payload", 0x777, 8, 1),
    ("hdr-information-request", 1, 8, 4),
    ("hdr-generic-payload", 6, 8, 1),
];

/// What the library exposed: (offset of the part relative to the tag, number of elements)
#[derive(Debug, PartialEq, Eq, Clone)]
enum View {
    Part { off: i64, elems: usize, sov: usize },
    Rejected,
}

fn max_size(k: usize) -> usize {
    let (_, _, f, e) = KINDS[k];
    f + 3 * e + 16
}

impl C05 {
    fn tag_image(&self, ctx: &mut Ctx, k: usize, size: usize) -> Vec<u8> {
        let (name, typ, fixed, _) = KINDS[k];
        let phys = round8(size.max(8));
        // every content byte non-zero, the last declared byte NUL (string kinds)
        let mut t = ctx.rng.marker_bytes(phys);
        for b in &mut t[size.min(phys)..] {
            *b = 0xEE;
        }
        if k >= 11 {
            put16(&mut t, 0, typ as u16);
            put16(&mut t, 2, 1);
        } else {
            put32(&mut t, 0, typ);
        }
        put32(&mut t, 4, size as u32);
        match name {
            "cmdline" | "loader" | "module" => {
                // ASCII text (valid UTF-8), terminated by the last declared byte
                for b in &mut t[fixed.min(phys)..size.min(phys).max(fixed.min(phys))] {
                    *b = b'a' + (*b % 26);
                }
                if size > fixed && size <= phys {
                    t[size - 1] = 0;
                }
            }
            "mmap" => {
                if phys >= 16 {
                    put32(&mut t, 8, 24);
                    put32(&mut t, 12, 0);
                }
            }
            "efi_mmap" => {
                if phys >= 16 {
                    put32(&mut t, 8, 40);
                    put32(&mut t, 12, 1);
                }
            }
            "elf" => {
                if phys >= 24 {
                    put32(&mut t, 8, 0);
                    put32(&mut t, 12, 64);
                    put32(&mut t, 16, 0);
                }
            }
            "fb-indexed" | "fb-rgb" => {
                if phys >= 32 {
                    t[29] = if name == "fb-indexed" { 0 } else { 1 };
                }
                if name == "fb-indexed" && phys >= 40 {
                    // palette count: as many as fit (or a few too many, see variant)
                    let fit = size.saturating_sub(34) / 3;
                    let n = match ctx.rng.below(4) {
                        0 => fit + 1,
                        1 => fit + 3,
                        _ => fit,
                    };
                    put16(&mut t, 32, n as u16);
                }
            }
            _ => {}
        }
        t
    }

    /// exercises the public view of the variable part; `tag_addr` for offsets
    fn observe_mbi(&self, k: usize, g: &DynSizedStructure<TagHeader>, size: usize) -> View {
        let base = g as *const _ as *const u8 as usize;
        let rel = |p: *const u8| p as usize as i64 - base as i64;
        match KINDS[k].0 {
            "cmdline" => {
                let t = g.cast::<CommandLineTag>();
                let s = t.cmdline().expect("terminated");
                View::Part { off: rel(s.as_ptr()), elems: s.len() + 1, sov: core::mem::size_of_val(t) }
            }
            "loader" => {
                let t = g.cast::<BootLoaderNameTag>();
                let s = t.name().expect("terminated");
                View::Part { off: rel(s.as_ptr()), elems: s.len() + 1, sov: core::mem::size_of_val(t) }
            }
            "module" => {
                let t = g.cast::<ModuleTag>();
                let s = t.cmdline().expect("terminated");
                View::Part { off: rel(s.as_ptr()), elems: s.len() + 1, sov: core::mem::size_of_val(t) }
            }
            "mmap" => {
                let t = g.cast::<MemoryMapTag>();
                let a = t.memory_areas();
                touch_val(a);
                View::Part { off: rel(a.as_ptr().cast()), elems: a.len(), sov: core::mem::size_of_val(t) }
            }
            "smbios" => {
                let t = g.cast::<SmbiosTag>();
                let a = t.tables();
                touch(a);
                View::Part { off: rel(a.as_ptr()), elems: a.len(), sov: core::mem::size_of_val(t) }
            }
            "elf" => {
                let t = g.cast::<ElfSectionsTag>();
                // the section bytes are private: the in-memory size is the observable
                View::Part { off: 20, elems: size - 20, sov: core::mem::size_of_val(t) }
            }
            "efi_mmap" => {
                let t = g.cast::<EFIMemoryMapTag>();
                let sov = core::mem::size_of_val(t);
                // map bytes are private: len() * desc_size (40) is the observable
                let it = t.memory_areas();
                let n = it.len();
                let mut first = None;
                for d in it {
                    touch_val(d);
                    if first.is_none() {
                        first = Some(rel(d as *const _ as *const u8));
                    }
                }
                View::Part { off: first.unwrap_or(16), elems: n * 40, sov }
            }
            "network" => {
                let t = g.cast::<NetworkTag>();
                // DHCP bytes are private: derived Debug lists them
                let s = format!("{:?}", t);
                let n = match s.find("dhcpack: [") {
                    Some(i) => {
                        let rest = &s[i + 10..];
                        let inner = &rest[..rest.find(']').unwrap_or(0)];
                        if inner.trim().is_empty() {
                            0
                        } else {
                            inner.split(',').count()
                        }
                    }
                    None => usize::MAX,
                };
                View::Part { off: 8, elems: n, sov: core::mem::size_of_val(t) }
            }
            "fb-indexed" => {
                let t = g.cast::<FramebufferTag>();
                let sov = core::mem::size_of_val(t);
                match t.buffer_type().expect("known type") {
                    FramebufferType::Indexed { palette } => {
                        touch_val(palette);
                        // report the byte extent of what was exposed: count word + palette
                        View::Part { off: rel(palette.as_ptr().cast()) - 2, elems: 2 + 3 * palette.len(), sov }
                    }
                    _ => View::Part { off: -1, elems: 0, sov },
                }
            }
            "fb-rgb" => {
                let t = g.cast::<FramebufferTag>();
                let sov = core::mem::size_of_val(t);
                match t.buffer_type().expect("known type") {
                    FramebufferType::RGB { .. } => View::Part { off: 32, elems: 6, sov },
                    _ => View::Part { off: -1, elems: 0, sov },
                }
            }
            _ => {
                let p = g.payload();
                touch(p);
                View::Part { off: rel(p.as_ptr()), elems: p.len(), sov: core::mem::size_of_val(g) }
            }
        }
    }

    fn expected(&self, k: usize, size: usize, t: &[u8]) -> View {
        let (name, _, fixed, elem) = KINDS[k];
        if size < fixed || (size - fixed) % elem != 0 {
            return View::Rejected;
        }
        let sov = round8(size);
        match name {
            "cmdline" | "loader" | "module" => {
                if size == fixed {
                    // empty content: no terminator inside the declared size
                    return View::Rejected;
                }
                View::Part { off: fixed as i64, elems: size - fixed, sov }
            }
            "efi_mmap" => {
                if (size - 16) % 40 != 0 {
                    View::Rejected
                } else {
                    View::Part { off: 16, elems: size - 16, sov }
                }
            }
            "fb-indexed" => {
                if size < 34 {
                    return View::Rejected;
                }
                let n = le16(t, 32) as usize;
                if 2 + 3 * n > size - 32 {
                    View::Rejected
                } else {
                    View::Part { off: 32, elems: 2 + 3 * n, sov }
                }
            }
            "fb-rgb" => {
                if size < 38 {
                    View::Rejected
                } else {
                    View::Part { off: 32, elems: 6, sov }
                }
            }
            _ => View::Part { off: fixed as i64, elems: (size - fixed) / elem, sov },
        }
    }

    fn one(&self, ctx: &mut Ctx, k: usize, size: usize, embedded: bool) {
        let (name, typ, _fixed, _) = KINDS[k];
        let t = self.tag_image(ctx, k, size);
        let exp = self.expected(k, size, &t);
        ctx.eval();
        let is_hdr = k >= 11;
        let got: Out<View>;
        let keep: Region;
        if !embedded {
            let reg = Region::new(ctx.placement, &t);
            got = catch(|| {
                if is_hdr {
                    let g = DynSizedStructure::<HeaderTagHeader>::ref_from_slice(reg.as_slice()).expect("valid bytes");
                    observe_hdr(k, g)
                } else {
                    let g = DynSizedStructure::<TagHeader>::ref_from_slice(reg.as_slice()).expect("valid bytes");
                    self.observe_mbi(k, g, size)
                }
            });
            keep = reg;
        } else if is_hdr {
            let mut h = HdrBuf::new(0);
            h.bytes.extend_from_slice(&t);
            h.push(7, 1, &[]); // marker neighbour (EFI BS tag)
            h.push(0, 0, &[]);
            let (bytes, _) = h.finish();
            let reg = Region::new(ctx.placement, &bytes);
            got = catch(|| {
                let hd = unsafe { Multiboot2Header::load(reg.ptr().cast::<Multiboot2BasicHeader>()) }.expect("loads");
                let g = hd.iter().next().expect("first tag");
                assert_eq!(g as *const _ as *const u8 as usize, reg.addr() + 16);
                if k == 11 {
                    // through the typed getter, too
                    let t = hd.information_request_tag().expect("present");
                    assert_eq!(t as *const _ as *const u8 as usize, reg.addr() + 16);
                }
                observe_hdr(k, g)
            });
            keep = reg;
        } else {
            let mut m = MbiBuf::new();
            m.bytes.extend_from_slice(&t);
            m.push(0x4141_4141, &[0x42; 5]);
            let bytes = m.finish();
            let reg = Region::new(ctx.placement, &bytes);
            got = catch(|| {
                let bi = unsafe { BootInformation::load(reg.ptr().cast::<BootInformationHeader>()) }.expect("loads");
                let g = bi.tags().next().expect("first tag");
                assert_eq!(g as *const _ as *const u8 as usize, reg.addr() + 8);
                self.observe_mbi(k, g, size)
            });
            keep = reg;
        }
        let _ = (keep, typ);
        let g = match got {
            Out::Panic(site) => {
                ctx.count(&format!("{}:rejected", name));
                let _ = site;
                View::Rejected
            }
            Out::Val(v) => {
                ctx.count(&format!("{}:view", name));
                v
            }
        };
        if g != exp {
            let sig = match (&g, &exp) {
                (View::Part { .. }, View::Rejected) => "value-where-rejection-required",
                (View::Rejected, View::Part { .. }) => "rejected-conformant-size",
                _ => "wrong-extent",
            };
            ctx.violation(
                &format!("{}:{}", name, sig),
                J::obj(vec![
                    ("kind", J::s(name)),
                    ("declared_size", J::u(size as u64)),
                    ("embedded", J::B(embedded)),
                    ("expected", J::s(format!("{:?}", exp))),
                    ("got", J::s(format!("{:?}", g))),
                    ("tag_bytes", J::S(hex_trunc(&t, 80))),
                ]),
            );
        }
        // string kinds: the same tag without any NUL inside the declared size and with
        // zeroed padding — the text must not be completed from the padding
        if k <= 2 && size > KINDS[k].2 && size % 8 != 0 {
            let fixed = KINDS[k].2;
            let mut t2 = t.clone();
            for b in &mut t2[fixed..size] {
                if *b == 0 {
                    *b = b'z';
                }
            }
            for b in &mut t2[size..] {
                *b = 0;
            }
            let reg = Region::new(ctx.placement, &t2);
            ctx.eval();
            let r = catch(|| {
                let g = DynSizedStructure::<TagHeader>::ref_from_slice(reg.as_slice()).expect("valid bytes");
                match k {
                    0 => g.cast::<CommandLineTag>().cmdline().map(|s| s.len()).map_err(|_| ()),
                    1 => g.cast::<BootLoaderNameTag>().name().map(|s| s.len()).map_err(|_| ()),
                    _ => g.cast::<ModuleTag>().cmdline().map(|s| s.len()).map_err(|_| ()),
                }
            });
            if let Out::Val(Ok(n)) = r {
                ctx.violation(
                    &format!("{}:text-completed-from-padding", name),
                    J::obj(vec![("kind", J::s(name)), ("declared_size", J::u(size as u64)), ("returned_text_len", J::u(n as u64)), ("tag_bytes", J::hex(&t2))]),
                );
            }
            ctx.count("string:unterminated-with-zero-padding");
        }
        // memory map whose entry_size field names another element size than the one the
        // library models (24): "element counts equal (size minus fixed part) divided by
        // the element size" — a count computed with a stride of 24 is not that. The
        // library may refuse such a map (it does, by a controlled panic) or decode it
        // with the stored stride; it must not hand out 24-byte areas.
        if name == "mmap" && !embedded && size > 16 && size <= t.len() {
            let es = [8u32, 16, 32, 40, 48][size % 5];
            let mut t2 = t.clone();
            put32(&mut t2, 8, es);
            let reg = Region::new(ctx.placement, &t2);
            let r = catch(|| {
                let g = DynSizedStructure::<TagHeader>::ref_from_slice(reg.as_slice()).expect("valid bytes");
                let m = g.cast::<MemoryMapTag>();
                let a = m.memory_areas();
                touch_val(a);
                a.len()
            });
            match r {
                Out::Val(n) if n > 0 && n != (size - 16) / es as usize => ctx.violation(
                    "mmap:foreign-entry-size-decoded-with-stride-24",
                    J::obj(vec![("entry_size", J::u(es as u64)), ("declared_size", J::u(size as u64)), ("areas_returned", J::u(n as u64)), ("tag_bytes", J::S(hex_trunc(&t2, 64)))]),
                ),
                Out::Val(_) => ctx.count("mmap:foreign-entry-size:accepted-consistently"),
                Out::Panic(_) => ctx.count("mmap:foreign-entry-size:rejected"),
            }
        }
        // ELF sections: an entry count whose byte extent (count x entry size) wraps
        // around 2^32 to something that fits is still a count that leaves the tag
        if name == "elf" && !embedded && size >= 20 && size <= t.len() {
            // count x entry size = k * 2^32 (+ one entry where one fits)
            let (es, n0) = [(64u32, 0x0400_0000u32), (40, 0x2000_0000), (16, 0x1000_0000), (8, 0x2000_0000), (24, 0x2000_0000)][size % 5];
            let n = n0 + if size - 20 >= es as usize { 1 } else { 0 };
            let mut t2 = t.clone();
            put32(&mut t2, 8, n);
            put32(&mut t2, 12, es);
            put32(&mut t2, 16, 0);
            let reg = Region::new(ctx.placement, &t2);
            let r = catch(|| {
                let g = DynSizedStructure::<TagHeader>::ref_from_slice(reg.as_slice()).expect("valid bytes");
                let e = g.cast::<ElfSectionsTag>();
                let _it = e.sections();
            });
            match r {
                Out::Val(()) => ctx.violation(
                    "elf:wrapping-entry-count-accepted",
                    J::obj(vec![("entry_size", J::u(es as u64)), ("number_of_sections", J::u(n as u64)), ("declared_size", J::u(size as u64))]),
                ),
                Out::Panic(_) => ctx.count("elf:wrapping-entry-count:rejected"),
            }
        }
        ctx.nontrivial(mix2(mix2(k as u64, size as u64), embedded as u64));
        if ctx.want_sample() && size == KINDS[k].2 + 5 && !embedded {
            ctx.sample(J::obj(vec![("kind", J::s(name)), ("declared_size", J::u(size as u64)), ("expected", J::s(format!("{:?}", exp))), ("tag_bytes", J::S(hex_trunc(&t, 64)))]));
        }
    }
}

fn observe_hdr(k: usize, g: &DynSizedStructure<HeaderTagHeader>) -> View {
    let base = g as *const _ as *const u8 as usize;
    let rel = |p: *const u8| p as usize as i64 - base as i64;
    if k == 11 {
        let t = g.cast::<InformationRequestHeaderTag>();
        let r = t.requests();
        touch_val(r);
        View::Part { off: rel(r.as_ptr().cast()), elems: r.len(), sov: core::mem::size_of_val(t) }
    } else {
        let p = g.payload();
        touch(p);
        View::Part { off: rel(p.as_ptr()), elems: p.len(), sov: core::mem::size_of_val(g) }
    }
}

impl Driver for C05 {
    fn ncases(&self, _ctx: &Ctx) -> u64 {
        (0..KINDS.len()).map(|k| max_size(k) as u64 + 1).sum()
    }
    fn run_case(&mut self, ctx: &mut Ctx, idx: u64) {
        let mut i = idx;
        for k in 0..KINDS.len() {
            let n = max_size(k) as u64 + 1;
            if i < n {
                let size = i as usize;
                self.one(ctx, k, size, false);
                self.one(ctx, k, size, true);
                // a few declarations beyond the region (embedded only): the walk must reject them
                if size == max_size(k) {
                    for extra in [64usize, 4096, 0x7fff_fff8] {
                        self.beyond(ctx, k, extra);
                    }
                }
                return;
            }
            i -= n;
        }
    }
}

impl C05 {
    fn beyond(&self, ctx: &mut Ctx, k: usize, over: usize) {
        if k >= 11 {
            return;
        }
        let (name, typ, fixed, _) = KINDS[k];
        let mut m = MbiBuf::new();
        let body = ctx.rng.marker_bytes(fixed + 8);
        m.push(typ, &body);
        let (mut bytes, tags) = m.finish_keep();
        let region_len = bytes.len();
        put32(&mut bytes, tags[0].off + 4, (region_len + over) as u32);
        let reg = Region::new(ctx.placement, &bytes);
        ctx.eval();
        let r = catch(|| {
            let bi = unsafe { BootInformation::load(reg.ptr().cast::<BootInformationHeader>()) }.expect("loads");
            bi.tags().next().map(|t| core::mem::size_of_val(t))
        });
        match r {
            Out::Panic(_) => ctx.count(&format!("{}:beyond-region:rejected", name)),
            Out::Val(v) => ctx.violation(&format!("{}:beyond-region-accepted", name), J::s(format!("declared {} in a {}-byte region -> {:?}", region_len + over, region_len, v))),
        }
    }
}
