//! Structure-aware workload generation (DESIGN §1.3): well-formed builder with
//! byte-marked contents, targeted corruption with boundary tables, blind
//! mutations.

use crate::spec::*;
use crate::util::{le32, put16, put32, put64, round8, Rng};
use std::sync::OnceLock;

// -------------------------------------------------- external name buffer ----

/// Harness-owned buffer ELF string-table entries point at (the documented
/// external-address exception of C01). Lives for the whole process; below
/// 4 GiB natively (MAP_32BIT) so the 32-bit layout can address it.
pub struct NameBuf {
    pub addr: usize,
    pub len: usize,
    /// (offset, bytes) of each NUL-terminated name
    pub names: Vec<(u32, Vec<u8>)>,
}

static NAMES: OnceLock<NameBuf> = OnceLock::new();

#[cfg(not(miri))]
extern "C" {
    fn mmap(addr: *mut u8, len: usize, prot: i32, flags: i32, fd: i32, off: i64) -> *mut u8;
}

pub fn names() -> &'static NameBuf {
    NAMES.get_or_init(|| {
        let len = 4096usize;
        #[cfg(not(miri))]
        let ptr: *mut u8 = unsafe {
            // PROT_READ|PROT_WRITE, MAP_PRIVATE|MAP_ANONYMOUS|MAP_32BIT
            let p = mmap(core::ptr::null_mut(), len, 3, 0x2 | 0x20 | 0x40, -1, 0);
            assert!(p as isize != -1);
            p
        };
        #[cfg(miri)]
        let ptr: *mut u8 = {
            let v = vec![0u8; len].into_boxed_slice();
            let p = Box::leak(v).as_mut_ptr();
            // expose the provenance: ElfSection::name() turns an integer into a pointer
            let _ = p as usize;
            p
        };
        let mut names = vec![];
        let list: [&[u8]; 8] = [
            b"",
            b".text",
            b".data",
            b".bss",
            b".rodata",
            b".shstrtab",
            "s\u{e9}ction".as_bytes(),
            &[0xff, 0xfe, b'x'], // invalid UTF-8
        ];
        let mut off = 0usize;
        for n in list {
            unsafe {
                core::ptr::copy_nonoverlapping(n.as_ptr(), ptr.add(off), n.len());
                *ptr.add(off + n.len()) = 0;
            }
            names.push((off as u32, n.to_vec()));
            off += n.len() + 1;
        }
        NameBuf {
            addr: ptr as usize,
            len,
            names,
        }
    })
}

// ------------------------------------------------------ conformant bodies ----

pub fn rand_text(rng: &mut Rng, maxlen: usize) -> Vec<u8> {
    let n = rng.below(maxlen as u64 + 1) as usize;
    let mut s = String::new();
    while s.len() < n {
        let c = match rng.below(10) {
            0 => 'é',
            1 => '€',
            2 => '𐍈',
            3 => ' ',
            _ => (b'!' + rng.below(94) as u8) as char,
        };
        if s.len() + c.len_utf8() > n {
            break;
        }
        s.push(c);
    }
    s.into_bytes()
}

/// one ELF section header entry
pub fn elf_entry(rng: &mut Rng, entsize: usize, typ: u32, name_index: u32, addr: u64) -> Vec<u8> {
    let mut e = rng.bytes(entsize);
    put32(&mut e, 0, name_index);
    put32(&mut e, 4, typ);
    if entsize == 40 {
        put32(&mut e, 12, addr as u32);
    } else if entsize == 64 {
        put64(&mut e, 16, addr);
    }
    e
}

pub const ELF_TYPE_CLASSES: &[u32] = &[
    0, 1, 2, 3, 4, 5, 6, 7, 8, 9, 10, 11, 12, 0x5fff_ffff, 0x6000_0000, 0x6fff_ffff, 0x7000_0000,
    0x7fff_ffff, 0x8000_0000, 0xffff_ffff,
];

/// Conformant ELF-sections body: n entries of size 40/64, string table entry
/// pointing at the harness' name buffer.
pub fn elf_body(rng: &mut Rng, n: usize, entsize: usize) -> Vec<u8> {
    let nb = names();
    let shndx = if n == 0 { 0 } else { rng.below(n as u64) as u32 };
    let mut b = vec![];
    b.extend_from_slice(&(n as u32).to_le_bytes());
    b.extend_from_slice(&(entsize as u32).to_le_bytes());
    b.extend_from_slice(&shndx.to_le_bytes());
    for i in 0..n {
        let typ = if i as u32 == shndx {
            3
        } else if rng.chance(1, 2) {
            *rng.pick(ELF_TYPE_CLASSES)
        } else {
            rng.below(12) as u32
        };
        let name = rng.pick(&nb.names).0;
        let addr = if i as u32 == shndx {
            nb.addr as u64
        } else {
            rng.u64_edge()
        };
        b.extend_from_slice(&elf_entry(rng, entsize, typ, name, addr));
    }
    b
}

pub fn rsdp_v1(rng: &mut Rng, valid_sum: bool) -> Vec<u8> {
    let mut b = rng.bytes(20);
    b[..8].copy_from_slice(b"RSD PTR ");
    for x in &mut b[9..15] {
        *x = b'A' + (*x % 26);
    }
    fix_sum(&mut b, 8, valid_sum, rng);
    b
}

fn fix_sum(b: &mut [u8], at: usize, valid: bool, rng: &mut Rng) {
    b[at] = 0;
    let s = b.iter().fold(0u8, |a, x| a.wrapping_add(*x));
    b[at] = 0u8.wrapping_sub(s);
    if !valid {
        b[at] = b[at].wrapping_add(1 + rng.below(255) as u8);
    }
}

pub fn rsdp_v2(rng: &mut Rng, valid_sum: bool, length: u32) -> Vec<u8> {
    let mut b = rng.bytes(36);
    b[..8].copy_from_slice(b"RSD PTR ");
    for x in &mut b[9..15] {
        *x = b'A' + (*x % 26);
    }
    put32(&mut b, 20, length);
    // the v2 checksum covers `length` bytes
    let l = (length as usize).min(36);
    let (head, _) = b.split_at_mut(l);
    if l > 32 {
        fix_sum(head, 32, valid_sum, rng);
    } else if l > 8 {
        fix_sum(head, 8, valid_sum, rng);
    }
    b
}

pub fn efi_mmap_body(rng: &mut Rng, d: usize, n: usize) -> Vec<u8> {
    let mut b = vec![];
    b.extend_from_slice(&(d as u32).to_le_bytes());
    b.extend_from_slice(&1u32.to_le_bytes());
    b.extend_from_slice(&rng.bytes(d * n));
    b
}

pub fn fb_body(rng: &mut Rng, typ: u8, ncolors: usize) -> Vec<u8> {
    let mut b = rng.bytes(24);
    b[21] = typ;
    match typ {
        0 => {
            b.extend_from_slice(&(ncolors as u16).to_le_bytes());
            b.extend_from_slice(&rng.bytes(3 * ncolors));
        }
        1 => b.extend_from_slice(&rng.bytes(6)),
        _ => {}
    }
    b
}

pub fn vbe_body(rng: &mut Rng) -> Vec<u8> {
    let mut b = rng.bytes(776);
    // memory_model: tag offset 555 => body offset 547; defined values only
    b[547] = rng.below(8) as u8;
    b
}

/// Spec-conformant body (everything after the 8-byte tag header) of kind `typ`
/// with byte-marked (pseudo-random) field contents.
pub fn body(rng: &mut Rng, typ: u32) -> Vec<u8> {
    match typ {
        T_END => vec![],
        T_CMDLINE | T_LOADER => {
            let mut t = rand_text(rng, 40);
            t.push(0);
            t
        }
        T_MODULE => {
            let start = rng.below(u32::MAX as u64) as u32;
            let end = rng.range(start as u64 + 1, u32::MAX as u64) as u32;
            let mut b = vec![];
            b.extend_from_slice(&start.to_le_bytes());
            b.extend_from_slice(&end.to_le_bytes());
            b.extend_from_slice(&rand_text(rng, 24));
            b.push(0);
            b
        }
        T_MEMINFO => rng.bytes(8),
        T_BOOTDEV => rng.bytes(12),
        T_MMAP => {
            let n = rng.below(5) as usize;
            let mut b = vec![];
            b.extend_from_slice(&24u32.to_le_bytes());
            b.extend_from_slice(&0u32.to_le_bytes());
            for _ in 0..n {
                let mut e = rng.bytes(24);
                if rng.chance(1, 2) {
                    put32(&mut e, 16, rng.below(7) as u32);
                }
                b.extend_from_slice(&e);
            }
            b
        }
        T_VBE => vbe_body(rng),
        T_FB => {
            let t = rng.below(3) as u8;
            let nc = rng.below(9) as usize;
            fb_body(rng, t, nc)
        }
        T_ELF => {
            let n = rng.below(5) as usize;
            let es = if rng.chance(1, 2) { 40 } else { 64 };
            elf_body(rng, n, es)
        }
        T_APM => rng.bytes(20),
        T_EFI32 | T_EFI32IH | T_LOADBASE => rng.bytes(4),
        T_EFI64 | T_EFI64IH => rng.bytes(8),
        T_SMBIOS => {
            let n = rng.below(20) as usize;
            rng.bytes(8 + n)
        }
        T_ACPI1 => {
            let v = rng.chance(1, 2);
            rsdp_v1(rng, v)
        }
        T_ACPI2 => {
            let v = rng.chance(1, 2);
            let l = if rng.chance(1, 4) { 20 } else { 36 };
            rsdp_v2(rng, v, l)
        }
        T_NET => {
            let n = rng.below(30) as usize;
            rng.bytes(n)
        }
        T_EFIMMAP => {
            let d = *rng.pick(&[40usize, 48, 56, 64]);
            let n = rng.below(4) as usize;
            efi_mmap_body(rng, d, n)
        }
        T_EFIBS => vec![],
        _ => {
            let n = rng.below(24) as usize;
            rng.bytes(n)
        }
    }
}

/// A spec-conformant boot information: random kinds (all 22 + custom types),
/// multiplicities 0..=3, random order.
pub fn conformant_mbi(rng: &mut Rng, max_tags: usize) -> (Vec<u8>, Vec<TagAt>) {
    let n = rng.below(max_tags as u64 + 1) as usize;
    let mut m = MbiBuf::new();
    let mut last: Option<u32> = None;
    for _ in 0..n {
        // bias: repeat the previous kind sometimes (multiplicities), custom types sometimes
        let typ = match rng.below(10) {
            0 if last.is_some() => last.unwrap(),
            1 => 22 + rng.below(1000) as u32,
            2 => rng.u32() | 0x100,
            _ => 1 + rng.below(21) as u32,
        };
        last = Some(typ);
        let b = body(rng, typ);
        m.push(typ, &b);
    }
    m.finish_keep()
}

// ------------------------------------------------------------ corruption ----

/// Boundary table for a size/count/stride/index field whose truthful value is
/// `truth`, with `remaining` bytes up to the end of the enclosing structure.
pub fn boundary(rng: &mut Rng, truth: u32, base: u32, remaining: u32, region_len: u32) -> u32 {
    let t = truth as i64;
    let r = remaining as i64;
    let cands: [i64; 30] = [
        0,
        1,
        7,
        8,
        9,
        base as i64 - 1,
        base as i64,
        base as i64 + 1,
        t - 1,
        t + 1,
        t - 8,
        t + 8,
        t - 4,
        t + 4,
        r - 1,
        r,
        r + 1,
        r - 8,
        r + 8,
        region_len as i64,
        region_len as i64 + 8,
        0x7fff_ffff,
        0xffff_fff8,
        0xffff_ffff,
        0x8000_0000,
        0xffff_fff0,
        16,
        24,
        40,
        64,
    ];
    let c = cands[rng.below(cands.len() as u64) as usize];
    c.clamp(0, u32::MAX as i64) as u32
}

/// Names of the corruptible count/size/stride/index fields per kind:
/// (tag-relative offset, width in bytes, label)
pub fn size_fields(typ: u32) -> &'static [(usize, usize, &'static str)] {
    match typ {
        T_MMAP => &[(8, 4, "mmap.entry_size"), (12, 4, "mmap.entry_version")],
        T_FB => &[(29, 1, "fb.type"), (32, 2, "fb.num_colors")],
        T_ELF => &[(8, 4, "elf.num"), (12, 4, "elf.entsize"), (16, 4, "elf.shndx")],
        T_ACPI2 => &[(28, 4, "rsdp2.length")],
        T_EFIMMAP => &[(8, 4, "efi.desc_size"), (12, 4, "efi.desc_version")],
        T_VBE => &[(555, 1, "vbe.memory_model")],
        _ => &[],
    }
}

/// Applies 1..=3 targeted corruptions to a well-formed boot information.
/// Returns labels of what was corrupted. The backing store is extended so it
/// always holds max(declared total_size, 8) bytes... callers use
/// `ensure_backing`.
pub fn corrupt_mbi(rng: &mut Rng, bytes: &mut Vec<u8>, tags: &[TagAt]) -> Vec<String> {
    let mut labels = vec![];
    let n = 1 + rng.below(3);
    let region_len = bytes.len() as u32;
    for _ in 0..n {
        match rng.below(10) {
            // tag size field
            0..=3 if !tags.is_empty() => {
                let t = *rng.pick(tags);
                let base = mbi_kind(t.word0).map(|k| k.0).unwrap_or(8) as u32;
                let rem = region_len - t.off as u32;
                let v = boundary(rng, t.size, base, rem, region_len);
                put32(bytes, t.off + 4, v);
                labels.push(format!("size@{}={}", t.off, v));
            }
            // kind-specific count/stride/index field
            4..=7 if !tags.is_empty() => {
                let t = *rng.pick(tags);
                let fs = size_fields(t.word0);
                if fs.is_empty() {
                    continue;
                }
                let (fo, w, name) = *rng.pick(fs);
                if t.off + fo + w > bytes.len() || fo + w > round8(t.size as usize) {
                    continue;
                }
                let truth = rd(bytes, t.off + fo, w) as u32;
                let rem = (t.size as usize).saturating_sub(fo + w) as u32;
                let mut v = boundary(rng, truth, 0, rem, region_len);
                if rng.chance(1, 3) {
                    v = rng.below(130) as u32;
                }
                match w {
                    1 => bytes[t.off + fo] = v as u8,
                    2 => put16(bytes, t.off + fo, v as u16),
                    _ => put32(bytes, t.off + fo, v),
                }
                labels.push(format!("{}@{}={}", name, t.off, v));
            }
            // tag type
            8 if !tags.is_empty() => {
                let t = *rng.pick(tags);
                let v = rng.below(23) as u32;
                put32(bytes, t.off, v);
                labels.push(format!("type@{}={}", t.off, v));
            }
            // total_size
            _ => {
                let v = boundary(rng, region_len, 8, region_len, region_len);
                put32(bytes, 0, v);
                labels.push(format!("total_size={}", v));
            }
        }
    }
    labels
}

/// Makes sure the backing store covers the declared total size (bounded), and
/// that the last 8 declared bytes are an end tag with probability `keep_end`,
/// so that corrupted regions still load often enough to reach the accessors.
pub fn ensure_backing(rng: &mut Rng, bytes: &mut Vec<u8>, cap: usize, fix_end: bool) {
    let ts = le32(bytes, 0) as usize;
    if ts > cap {
        // cannot back it: clamp the declaration instead (keeps it adversarial
        // relative to the tags inside)
        let n = round8(bytes.len()).max(8);
        bytes.resize(n, PAD);
        put32(bytes, 0, n as u32);
        return;
    }
    if ts > bytes.len() {
        let extra = ts - bytes.len();
        bytes.extend_from_slice(&rng.marker_bytes(extra));
    }
    if fix_end && ts >= 16 && ts % 8 == 0 {
        put32(bytes, ts - 8, 0);
        put32(bytes, ts - 4, 8);
    }
    if bytes.len() < 8 {
        bytes.resize(8, 0);
    }
}

/// Blind mutations: byte flips, truncation at a multiple of 8, splices.
pub fn blind_mutate(rng: &mut Rng, bytes: &mut Vec<u8>) -> String {
    match rng.below(4) {
        0 => {
            let k = 1 + rng.below(4);
            for _ in 0..k {
                if bytes.len() > 8 {
                    let i = rng.range(8, bytes.len() as u64 - 1) as usize;
                    bytes[i] ^= 1 << rng.below(8);
                }
            }
            "bitflips".into()
        }
        1 => {
            let n = (rng.below(bytes.len() as u64 / 8 + 1) * 8) as usize;
            bytes.truncate(n.max(8));
            let l = bytes.len() as u32;
            put32(bytes, 0, l);
            "truncate".into()
        }
        2 => {
            if bytes.len() >= 24 {
                let a = (rng.range(1, bytes.len() as u64 / 8 - 1) * 8) as usize;
                let b = (rng.range(1, bytes.len() as u64 / 8 - 1) * 8) as usize;
                let n = (rng.range(1, 4) * 8) as usize;
                let n = n.min(bytes.len() - a).min(bytes.len() - b);
                let chunk = bytes[a..a + n].to_vec();
                bytes[b..b + n].copy_from_slice(&chunk);
            }
            "splice".into()
        }
        _ => {
            let l = bytes.len();
            let r = rng.bytes(l - 8);
            bytes[8..].copy_from_slice(&r);
            "random-fill".into()
        }
    }
}

// ----------------------------------------------------------- header side ----

pub const ARCHS: [u32; 2] = [0, 4];

/// Conformant header-tag body of kind `typ` (defined enum values only).
pub fn hdr_body(rng: &mut Rng, typ: u16) -> Vec<u8> {
    match typ {
        H_INFOREQ => {
            let n = rng.below(33) as usize;
            rng.bytes(4 * n)
        }
        H_ADDRESS => rng.bytes(16),
        H_ENTRY | H_ENTRY_EFI32 | H_ENTRY_EFI64 => rng.bytes(4),
        H_CONSOLE => (rng.below(2) as u32).to_le_bytes().to_vec(),
        H_FB => rng.bytes(12),
        H_RELOC => {
            let mut b = rng.bytes(16);
            put32(&mut b, 12, rng.below(3) as u32);
            b
        }
        _ => vec![],
    }
}

/// Conformant header: random kinds 1..=10, multiplicities 0..=3, then an end tag.
pub fn conformant_hdr(rng: &mut Rng, max_tags: usize) -> (Vec<u8>, Vec<TagAt>) {
    let arch = *rng.pick(&ARCHS);
    let mut h = HdrBuf::new(arch);
    let n = rng.below(max_tags as u64 + 1) as usize;
    let mut last = None;
    for _ in 0..n {
        let typ = match (rng.below(8), last) {
            (0, Some(l)) => l,
            _ => 1 + rng.below(10) as u16,
        };
        last = Some(typ);
        let b = hdr_body(rng, typ);
        let flags = rng.below(2) as u16;
        h.push(typ, flags, &b);
    }
    h.push(H_END, 0, &[]);
    h.finish()
}

/// Corrupts lengths / tag sizes of a header, keeping enumerated fields defined
/// (C09's premise). Recomputes the checksum so the header still loads.
pub fn corrupt_hdr(rng: &mut Rng, bytes: &mut Vec<u8>, tags: &[TagAt]) -> Vec<String> {
    let mut labels = vec![];
    let n = 1 + rng.below(2);
    let region_len = bytes.len() as u32;
    for _ in 0..n {
        if rng.chance(3, 4) && !tags.is_empty() {
            let t = *rng.pick(tags);
            let base = HDR_KINDS
                .iter()
                .find(|k| k.0 == t.htyp())
                .map(|k| k.1)
                .unwrap_or(8) as u32;
            let rem = region_len - t.off as u32;
            let v = boundary(rng, t.size, base, rem, region_len);
            put32(bytes, t.off + 4, v);
            labels.push(format!("size@{}={}", t.off, v));
        } else {
            let v = boundary(rng, region_len, 16, region_len, region_len);
            put32(bytes, 8, v);
            labels.push(format!("length={}", v));
        }
    }
    let arch = le32(bytes, 4);
    let len = le32(bytes, 8);
    put32(bytes, 12, checksum(HDR_MAGIC, arch, len));
    labels
}
