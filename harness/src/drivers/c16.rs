//! C16 — heap construction lays out header and content exactly; clone is identity.

use super::Driver;
use crate::alloc_ledger::{self, Ev};
use crate::util::*;
use multiboot2::{
    BootLoaderNameTag, CommandLineTag, EFIMemoryMapTag, ElfSectionsTag, FramebufferColor, FramebufferField, FramebufferTag,
    FramebufferType, MemoryArea, MemoryMapTag, ModuleTag, NetworkTag, SmbiosTag, TagHeader,
};
use multiboot2_common::test_utils::{DummyDstTag, DummyTestHeader};
use multiboot2_common::{clone_dyn, new_boxed, DynSizedStructure, Header, MaybeDynSized};
use multiboot2_header::{HeaderTagFlag, InformationRequestHeaderTag, MbiTagTypeId};

pub struct C16;

#[derive(Clone, Debug, PartialEq, Eq)]
#[repr(C, align(8))]
pub struct Hdr16 {
    size: u32,
    a: u32,
    b: u32,
    c: u32,
}
impl Header for Hdr16 {
    fn payload_len(&self) -> usize {
        self.size as usize - 16
    }
    fn set_size(&mut self, t: usize) {
        self.size = t as u32;
    }
}
#[derive(ptr_meta::Pointee)]
#[repr(C, align(8))]
pub struct MyDst {
    header: Hdr16,
    payload: [u8],
}
impl MaybeDynSized for MyDst {
    type Header = Hdr16;
    const BASE_SIZE: usize = 16;
    fn dst_len(h: &Hdr16) -> usize {
        h.size as usize - 16
    }
}

fn max_total(ctx: &Ctx) -> usize {
    match ctx.tier {
        Tier::Quick => 24,
        Tier::Thorough => 48,
    }
}

/// all compositions of `n` into `k` parts (parts may be 0)
fn compositions(n: usize, k: usize, f: &mut dyn FnMut(&[usize])) {
    fn rec(n: usize, k: usize, cur: &mut Vec<usize>, f: &mut dyn FnMut(&[usize])) {
        if k == 0 {
            if n == 0 {
                f(cur);
            }
            return;
        }
        if k == 1 {
            cur.push(n);
            f(cur);
            cur.pop();
            return;
        }
        for p in 0..=n {
            cur.push(p);
            rec(n - p, k - 1, cur, f);
            cur.pop();
        }
    }
    rec(n, k, &mut vec![], f)
}

/// raw bytes [0, n) of a heap object (never touches trailing padding)
unsafe fn bytes_of<T: ?Sized>(t: &T, n: usize) -> &[u8] {
    core::slice::from_raw_parts(t as *const T as *const u8, n)
}

/// Judges one boxed object: `declared` = size field read through the API.
fn judge<T: ?Sized>(
    ctx: &mut Ctx,
    what: &str,
    b: &T,
    hdr_len: usize,
    declared: usize,
    content: &[u8],
    evs: &Option<Vec<Ev>>,
    desc: &J,
) -> bool {
    let total = hdr_len + content.len();
    let addr = b as *const T as *const u8 as usize;
    let sov = core::mem::size_of_val(b);
    let mut ok = true;
    let mut bad = |ctx: &mut Ctx, sig: &str, msg: String| {
        ctx.violation(&format!("{}:{}", what, sig), J::obj(vec![("what", J::s(msg)), ("case", desc.clone())]));
        ok = false;
    };
    if declared != total {
        bad(ctx, "size-field", format!("size field {} but header {} + content {} = {}", declared, hdr_len, content.len(), total));
    }
    if addr % 8 != 0 {
        bad(ctx, "alignment", format!("address {:#x} not 8-aligned", addr));
    }
    if sov != round8(total) {
        bad(ctx, "size_of_val", format!("size_of_val {} but round8({}) = {}", sov, total, round8(total)));
    }
    let got = unsafe { bytes_of(b, total.min(sov)) };
    if got.len() >= hdr_len && &got[hdr_len..] != &content[..got.len() - hdr_len] {
        bad(ctx, "content", format!("bytes after the header {} != concatenation {}", hex_trunc(&got[hdr_len..], 48), hex_trunc(content, 48)));
    }
    if let Some(evs) = evs {
        // exactly one allocation at the object's address, with the rounded
        // layout; helper allocations made and released meanwhile are ignored
        let mine: Vec<&Ev> = evs.iter().filter(|e| e.ptr == addr).collect();
        let mut others: Vec<Ev> = vec![];
        for e in evs.iter().filter(|e| e.ptr != addr) {
            if e.is_alloc {
                others.push(*e);
            } else if let Some(i) = others.iter().position(|a| a.ptr == e.ptr && a.size == e.size && a.align == e.align) {
                others.remove(i);
            }
        }
        if mine.len() != 1 || !mine[0].is_alloc {
            bad(ctx, "ledger:alloc-count", format!("{:?}", evs));
        } else {
            let a = mine[0];
            if a.size != round8(total) || a.align != 8 {
                bad(ctx, "ledger:alloc-layout", format!("allocated ({},{}), expected ({}, 8)", a.size, a.align, round8(total)));
            }
        }
        ctx.count("ledger:alloc-checked");
    }
    ok
}

fn judge_drop(ctx: &mut Ctx, what: &str, addr: usize, total: usize, evs: &Option<Vec<Ev>>, desc: &J) {
    if let Some(evs) = evs {
        let ok = evs.len() == 1 && !evs[0].is_alloc && evs[0].ptr == addr && evs[0].size == round8(total) && evs[0].align == 8;
        if !ok {
            ctx.violation(
                &format!("{}:ledger:dealloc", what),
                J::obj(vec![("what", J::s(format!("drop caused {:?}; expected one dealloc of ({}, 8) at the box address", evs, round8(total)))), ("case", desc.clone())]),
            );
        }
        ctx.count("ledger:dealloc-checked");
    }
}

macro_rules! rec {
    ($e:expr) => {
        if alloc_ledger::available() {
            alloc_ledger::record(|| $e)
        } else {
            ($e, None)
        }
    };
}

impl C16 {
    fn comps(&self, ctx: &mut Ctx, ty: u64, n: usize, k: usize) {
        let data = ctx.rng.bytes(n);
        let mut list: Vec<Vec<usize>> = vec![];
        compositions(n, k, &mut |c| list.push(c.to_vec()));
        // Miri: thin out the large composition lists
        if cfg!(miri) && list.len() > 6 {
            let mut sel = vec![];
            for _ in 0..6 {
                sel.push(ctx.rng.pick(&list).clone());
            }
            list = sel;
        }
        for comp in list {
            let mut slices: Vec<&[u8]> = vec![];
            let mut o = 0;
            for &p in &comp {
                slices.push(&data[o..o + p]);
                o += p;
            }
            let desc = J::obj(vec![("type", J::s(["DummyDstTag", "DynSizedStructure<TagHeader>", "MyDst(16-byte header)"][ty as usize])), ("parts", J::s(format!("{:?}", comp))), ("content", J::hex(&data))]);
            ctx.eval();
            let what = ["new_boxed<DummyDstTag>", "new_boxed<DynSized<TagHeader>>", "new_boxed<MyDst>"][ty as usize];
            macro_rules! go {
                ($t:ty, $hdr:expr, $hl:expr, $size:expr) => {{
                    let (r, evs) = rec!(catch(|| new_boxed::<$t>($hdr, &slices)));
                    match r {
                        Out::Panic(site) => ctx.violation(&format!("{}:panic@{}", what, site), desc.clone()),
                        Out::Val(b) => {
                            let declared = $size(&*b);
                            let ok = judge(ctx, what, &*b, $hl, declared, &data, &evs, &desc);
                            // clone is the identity
                            if ok {
                                let (c, evc) = rec!(catch(|| clone_dyn(&*b)));
                                match c {
                                    Out::Panic(site) => ctx.violation(&format!("clone_dyn:panic@{}", site), desc.clone()),
                                    Out::Val(c) => {
                                        let dc = $size(&*c);
                                        judge(ctx, "clone_dyn", &*c, $hl, dc, &data, &evc, &desc);
                                        let a = &*c as *const $t as *const u8 as usize;
                                        let (_, evd) = rec!(drop(c));
                                        judge_drop(ctx, "clone_dyn", a, $hl + n, &evd, &desc);
                                    }
                                }
                            }
                            let a = &*b as *const $t as *const u8 as usize;
                            let (_, evd) = rec!(drop(b));
                            judge_drop(ctx, what, a, $hl + n, &evd, &desc);
                        }
                    }
                }};
            }
            match ty {
                0 => go!(DummyDstTag, DummyTestHeader::new(42, 0), 8, |b: &DummyDstTag| b.header().size() as usize),
                1 => go!(DynSizedStructure<TagHeader>, TagHeader::new(multiboot2::TagType::Custom(0x1234), 0), 8, |b: &DynSizedStructure<TagHeader>| b.header().size as usize),
                _ => go!(MyDst, Hdr16 { size: 0, a: 0xaaaa_aaaa, b: 0xbbbb_bbbb, c: 0xcccc_cccc }, 16, |b: &MyDst| MaybeDynSized::header(b).size as usize),
            }
            let mut h = mix2(ty, n as u64);
            for p in &comp {
                h = mix2(h, *p as u64);
            }
            ctx.nontrivial(mix2(h, k as u64));
            if ctx.want_sample() && n >= 5 && k >= 2 {
                ctx.sample(desc);
            }
        }
    }

    /// every DST constructor of both crates, content length `len`
    fn constructors(&self, ctx: &mut Ctx, len: usize) {
        // "cloning yields an equal tag": also through the type's own PartialEq
        fn same<T: ?Sized + PartialEq>(ctx: &mut Ctx, a: &T, b: &T) {
            ctx.count("clone:partial-eq-checked");
            if catch(|| a == b) != Out::Val(true) {
                ctx.violation("clone_dyn:not-equal-by-PartialEq", J::s(core::any::type_name::<T>()));
            }
        }
        fn nocmp<T: ?Sized>(_ctx: &mut Ctx, _a: &T, _b: &T) {}
        macro_rules! ctor {
            ($name:expr, $make:expr, $hl:expr, $content:expr) => {
                ctor!($name, $make, $hl, $content, same)
            };
            ($name:expr, $make:expr, $hl:expr, $content:expr, $eq:ident) => {{
                ctx.eval();
                let desc = J::obj(vec![("constructor", J::s($name)), ("content_len", J::u(len as u64))]);
                let (r, evs) = rec!(catch(|| $make));
                match r {
                    Out::Panic(site) => ctx.violation(&format!("{}:panic@{}", $name, site), desc.clone()),
                    Out::Val(b) => {
                        let content: Vec<u8> = $content;
                        let declared = le32(unsafe { bytes_of(&*b, 8) }, 4) as usize;
                        let ok = judge(ctx, $name, &*b, $hl, declared, &content, &evs, &desc);
                        if ok {
                            let (c, evc) = rec!(catch(|| clone_dyn(&*b)));
                            match c {
                                Out::Panic(site) => ctx.violation(&format!("clone_dyn({}):panic@{}", $name, site), desc.clone()),
                                Out::Val(c) => {
                                    let dc = le32(unsafe { bytes_of(&*c, 8) }, 4) as usize;
                                    judge(ctx, &format!("clone_dyn({})", $name), &*c, $hl, dc, &content, &evc, &desc);
                                    $eq(ctx, &*b, &*c);
                                    let total = $hl + content.len();
                                    let a = &*c as *const _ as *const u8 as usize;
                                    let (_, evd) = rec!(drop(c));
                                    judge_drop(ctx, &format!("clone_dyn({})", $name), a, total, &evd, &desc);
                                }
                            }
                        }
                        let total = $hl + content.len();
                        let a = &*b as *const _ as *const u8 as usize;
                        let (_, evd) = rec!(drop(b));
                        judge_drop(ctx, $name, a, total, &evd, &desc);
                    }
                }
                ctx.nontrivial(mix2(str_hash($name), len as u64));
            }};
        }
        // a NUL-free ASCII string of `len` bytes
        let s: String = (0..len).map(|i| (b'a' + ((i as u8).wrapping_add(ctx.rng.u8()) % 26)) as char).collect();
        let mut s0 = s.clone().into_bytes();
        s0.push(0);
        ctor!("CommandLineTag::new", CommandLineTag::new(&s), 8, s0.clone());
        ctor!("BootLoaderNameTag::new", BootLoaderNameTag::new(&s), 8, s0.clone());
        let (ms, me) = (ctx.rng.u32() >> 1, (ctx.rng.u32() >> 1) | 0x8000_0000);
        let mut mc = ms.to_le_bytes().to_vec();
        mc.extend_from_slice(&me.to_le_bytes());
        mc.extend_from_slice(&s0);
        ctor!("ModuleTag::new", ModuleTag::new(ms, me, &s), 8, mc.clone());
        let raw = ctx.rng.bytes(len);
        ctor!("NetworkTag::new", NetworkTag::new(&raw), 8, raw.clone(), nocmp);
        let mut sc = vec![3u8, 7, 0, 0, 0, 0, 0, 0];
        sc.extend_from_slice(&raw);
        ctor!("SmbiosTag::new", SmbiosTag::new(3, 7, &raw), 8, sc.clone());
        let mut ec = vec![];
        for w in [5u32, 64, 2] {
            ec.extend_from_slice(&w.to_le_bytes());
        }
        ec.extend_from_slice(&raw);
        ctor!("ElfSectionsTag::new", ElfSectionsTag::new(5, 64, 2, &raw), 8, ec.clone());
        let mut fc = vec![];
        for w in [48u32, 1] {
            fc.extend_from_slice(&w.to_le_bytes());
        }
        fc.extend_from_slice(&raw);
        ctor!("EFIMemoryMapTag::new_from_map", EFIMemoryMapTag::new_from_map(48, 1, &raw), 8, fc.clone());
        if len <= 8 {
            // len = number of elements for the array-shaped constructors
            let areas: Vec<MemoryArea> = (0..len).map(|_| MemoryArea::new(ctx.rng.next(), ctx.rng.next(), ctx.rng.u32())).collect();
            let mut ac = vec![];
            for w in [24u32, 0] {
                ac.extend_from_slice(&w.to_le_bytes());
            }
            for a in &areas {
                ac.extend_from_slice(&a.start_address().to_le_bytes());
                ac.extend_from_slice(&a.size().to_le_bytes());
                ac.extend_from_slice(&u32::from(a.typ()).to_le_bytes());
                ac.extend_from_slice(&0u32.to_le_bytes());
            }
            ctor!("MemoryMapTag::new", MemoryMapTag::new(&areas), 8, ac.clone());
            let pal: Vec<FramebufferColor> = (0..len).map(|_| FramebufferColor { red: ctx.rng.u8(), green: ctx.rng.u8(), blue: ctx.rng.u8() }).collect();
            let mut pc = vec![];
            pc.extend_from_slice(&0x1122_3344_5566_7788u64.to_le_bytes());
            for w in [1u32, 2, 3] {
                pc.extend_from_slice(&w.to_le_bytes());
            }
            pc.extend_from_slice(&[32, 0, 0, 0]);
            pc.extend_from_slice(&(len as u16).to_le_bytes());
            for c in &pal {
                pc.extend_from_slice(&[c.red, c.green, c.blue]);
            }
            ctor!("FramebufferTag::new(Indexed)", FramebufferTag::new(0x1122_3344_5566_7788, 1, 2, 3, 32, FramebufferType::Indexed { palette: &pal }), 8, pc.clone());
            let _ = FramebufferField { position: 0, size: 0 };
        }
        if len <= 33 {
            let reqs: Vec<MbiTagTypeId> = (0..len).map(|_| MbiTagTypeId::new(ctx.rng.u32())).collect();
            let mut rc = vec![];
            for r in &reqs {
                rc.extend_from_slice(&u32::from(*r).to_le_bytes());
            }
            ctor!("InformationRequestHeaderTag::new", InformationRequestHeaderTag::new(HeaderTagFlag::Optional, &reqs), 8, rc.clone());
        }
    }

    /// clone of built boot informations / headers
    fn built(&self, ctx: &mut Ctx) {
        use multiboot2::Builder;
        let n = ctx.rng.below(30) as usize;
        let s: String = (0..n).map(|_| 'x').collect();
        let mut b = Builder::new().cmdline(CommandLineTag::new(&s));
        if ctx.rng.chance(1, 2) {
            b = b.bootloader(BootLoaderNameTag::new(&s));
        }
        if ctx.rng.chance(1, 2) {
            b = b.add_module(ModuleTag::new(1, 2, &s));
        }
        let mbi = b.build();
        let total = mbi.header().total_size() as usize;
        ctx.eval();
        let desc = J::obj(vec![("built", J::s("multiboot2::Builder")), ("total_size", J::u(total as u64))]);
        let (c, evc) = rec!(catch(|| clone_dyn(&*mbi)));
        match c {
            Out::Panic(site) => ctx.violation(&format!("clone_dyn(mbi):panic@{}", site), desc),
            Out::Val(c) => {
                // all bytes of a built MBI are initialised except tag padding; compare per tag up to its size
                let same_size = c.header().total_size() as usize == total;
                let a = unsafe { bytes_of(&*mbi, 8) };
                let bb = unsafe { bytes_of(&*c, 8) };
                if !same_size || a != bb || core::mem::size_of_val(&*c) != core::mem::size_of_val(&*mbi) {
                    ctx.violation("clone_dyn(mbi):differs", desc);
                }
                let _ = evc;
                ctx.count("clone:built-mbi");
            }
        }
        let mut hb = multiboot2_header::Builder::new(multiboot2_header::HeaderTagISA::I386);
        if ctx.rng.chance(1, 2) {
            hb = hb.module_align_tag(multiboot2_header::ModuleAlignHeaderTag::new(HeaderTagFlag::Required));
        }
        let h = hb.build();
        let total = h.header().length() as usize;
        ctx.eval();
        match catch(|| clone_dyn(&*h)) {
            Out::Panic(site) => ctx.violation(&format!("clone_dyn(header):panic@{}", site), J::Null),
            Out::Val(c) => {
                let a = unsafe { bytes_of(&*h, total) };
                let bb = unsafe { bytes_of(&*c, total.min(core::mem::size_of_val(&*c))) };
                if a != bb || c.header().length() as usize != total {
                    ctx.violation("clone_dyn(header):differs", J::s(format!("{} vs {}", hex(a), hex(bb))));
                }
                ctx.count("clone:built-header");
            }
        }
    }
}

impl Driver for C16 {
    fn ncases(&self, ctx: &Ctx) -> u64 {
        3 * (max_total(ctx) as u64 + 1) * 5 + 41 + 32
    }
    fn run_case(&mut self, ctx: &mut Ctx, idx: u64) {
        let g = 3 * (max_total(ctx) as u64 + 1) * 5;
        if idx < g {
            let ty = idx / ((max_total(ctx) as u64 + 1) * 5);
            let r = idx % ((max_total(ctx) as u64 + 1) * 5);
            let n = (r / 5) as usize;
            let k = (r % 5) as usize;
            if k == 0 && n > 0 {
                return; // no composition of n > 0 into 0 slices
            }
            self.comps(ctx, ty, n, k);
            return;
        }
        let k = idx - g;
        if k <= 40 {
            self.constructors(ctx, k as usize);
        } else {
            self.built(ctx);
        }
    }
}
