#!/bin/bash
# usage: seedtest_alt.sh <patch.diff> <tier> <check ids...>
# Like seedtest.sh, but does not touch /repo: the patch is applied in a scratch
# worktree under /tmp and the checks build against it (MB2_REPO). Evidence files
# written by these runs go to a scratch directory, not to /verif/evidence.
set -u
patch=$1; tier=$2; shift 2
wt=/tmp/wt-seedtest
git -C /repo worktree add -q --detach $wt HEAD 2>/dev/null || { git -C $wt checkout -q --detach $(git -C /repo rev-parse HEAD); }
git -C $wt checkout -- . ; git -C $wt clean -fdq
git -C $wt apply "$patch" || { echo "patch does not apply"; exit 2; }
cd /verif
for c in "$@"; do
  echo "---- $c"
  MB2_REPO=$wt MB2_EVIDENCE_DIR=/tmp/seed-evidence python3 verif.py check $c --tier $tier 2>&1 | grep -E "^VIOLATION|^  sig=|^KNOWN|^C[0-9]+ \[|INCONCLUSIVE" | head -12
done
git -C $wt checkout -- .
