#!/usr/bin/env python3
"""Orchestrator for the runtime monitors of rust-osdev/multiboot2 (see DESIGN.md).

  verif.py setup                       build every harness configuration once
  verif.py check <ID> [--tier T]       run the monitors for one property, write evidence
  verif.py replay <replay.json>        re-execute one recorded witness
  verif.py baseline-off                the repository's own tests (hooks guard off)

Exit codes of `check`: 0 = property held on everything explored (known findings are
listed as KNOWN-FINDING lines), 1 = a monitor fired (VIOLATION lines), 2 = nothing
could be decided (inconclusive: tool failure / nothing observed).
"""
import concurrent.futures as cf
import hashlib
import json
import os
import re
import shutil
import subprocess
import sys
import time

VERIF = os.path.dirname(os.path.abspath(__file__))  # also in engines.py
sys.path.insert(0, VERIF)

from engines import *  # noqa: F401,F403,E402
from engines import ALT_TAG, ENGINES, build, run_cmd, engine_env, target_dir, binary

# ------------------------------------------------------------------ plans ----
from plans import PLANS, RULES, ASSUMPTIONS, LEVEL_NOTES  # noqa: E402


def load_known():
    p = os.path.join(VERIF, "known_findings.json")
    if not os.path.exists(p):
        return []
    return json.load(open(p))["entries"]


def match_known(known, prop, sig):
    for k in known:
        if k.get("status") != "finding":
            continue
        if k["property"] == prop and re.search(k["sig_regex"], sig):
            return k
    return None


# ------------------------------------------------------------- shard jobs ----
class ShardResult:
    def __init__(self):
        self.summaries = []
        self.hashes = set()
        self.violations = []  # dicts
        self.crashes = []  # dicts
        self.inconclusive = []  # strings
        self.tblocks = {}  # C08: block -> hash
        self.benign = 0  # transient dangling reference in cast (Miri), see run_shard
        self.lines = 0


MIRI_ERR = re.compile(r"error: (Undefined Behavior|unsupported operation|memory leaked|abnormal termination|the evaluated program (?:leaked memory|deadlocked|aborted))[:]?\s*(.*)")
ASAN_ERR = re.compile(r"ERROR: (AddressSanitizer|LeakSanitizer): ([^\n]*)")


def first_repo_frame(text):
    m = re.search(r"(multiboot2[\w-]*/src/[\w/]+\.rs:\d+)", text)
    return m.group(1) if m else "?"


def run_shard(job):
    """Runs one shard, restarting after a crash/UB witness. Returns ShardResult."""
    engine, base_args, shard, nshards, timeout_s, logdir, prop = job
    res = ShardResult()
    frm = 0
    restarts = 0
    while True:
        args = list(base_args) + ["--shard", f"{shard}/{nshards}", "--from", str(frm)]
        cmd = run_cmd(engine, args)
        t0 = time.time()
        try:
            p = subprocess.run(cmd, env=engine_env(engine), cwd=HARNESS, stdout=subprocess.PIPE, stderr=subprocess.PIPE,
                               timeout=timeout_s)
            out = p.stdout.decode("utf-8", "replace")
            err = p.stderr.decode("utf-8", "replace")
            rc = p.returncode
        except subprocess.TimeoutExpired as e:
            out = (e.stdout or b"").decode("utf-8", "replace")
            err = (e.stderr or b"").decode("utf-8", "replace")
            rc = None
        if logdir:
            tag = f"{engine}-{shard}of{nshards}-{restarts}"
            with open(os.path.join(logdir, tag + ".out"), "w") as f:
                f.write("$ " + " ".join(cmd) + "\n" + out)
            with open(os.path.join(logdir, tag + ".err"), "w") as f:
                f.write(err[-200000:])
        got_summary = False
        for line in out.splitlines():
            if line.startswith("V "):
                try:
                    v = json.loads(line[2:])
                    if base_args[0] != prop:
                        v["sig"] = base_args[0] + ":" + v.get("sig", "?")
                    v["engine"] = engine
                    v["args"] = base_args + ["--shard", f"{shard}/{nshards}"]
                    res.violations.append(v)
                except ValueError:
                    pass
            elif line.startswith("H "):
                res.hashes.update(line.split()[1:])
            elif line.startswith("TB "):
                _, b, h = line.split()
                res.tblocks[int(b)] = h
            elif line.startswith("SUMMARY "):
                try:
                    res.summaries.append(json.loads(line[8:]))
                    got_summary = True
                except ValueError:
                    pass
        if rc is None:
            res.inconclusive.append(f"{engine} shard {shard}/{nshards}: watchdog ({timeout_s}s) fired")
            return res
        if got_summary and rc in (0, 1):
            return res
        # abnormal end: find the witness case
        case = None
        kind = None
        pos = None
        m = re.search(r"CRASH sig=(\d+) case=(\d+) pos=(\d+)", out)
        if m:
            kind = f"signal-{m.group(1)}"
            case = int(m.group(2))
            pos = int(m.group(3))
        bs = re.findall(r"^B (\d+)$", err, re.M)
        ps = re.findall(r"^P (\d+)$", err, re.M)
        if case is None and bs:
            case = int(bs[-1])
            pos = int(ps[-1]) if ps else None
        detail = ""
        mm = MIRI_ERR.search(err)
        ma = ASAN_ERR.search(err)
        if mm:
            kind = "miri:" + mm.group(1) + ": " + re.sub(r"0x[0-9a-f]+|alloc\d+|\d+", "N", mm.group(2))[:90]
            # keep the backtrace part
            detail = err[mm.start():mm.start() + 3000]
        elif ma:
            kind = "asan:" + ma.group(2).split(" on ")[0].strip()
            detail = err[ma.start():ma.start() + 3000]
        elif kind is None:
            if rc < 0:
                kind = f"signal-{-rc}"
            elif rc == 101 and re.search(r"HARNESS PANIC at (multiboot2[\w-]*/src/[\w/]+\.rs:\d+)", err):
                # a panic *inside the library* at a call the driver makes outside its
                # outcome classifier, i.e. where no panic is allowed to happen
                site = re.search(r"HARNESS PANIC at (multiboot2[\w-]*/src/[\w/]+\.rs:\d+)", err).group(1)
                kind = "library-panic-where-none-is-allowed"
                detail = err[-1500:]
                mcp = re.search(r"HARNESS PANIC at \S+ case=(\d+) pos=(\d+)", err)
                if mcp and case is None:
                    case, pos = int(mcp.group(1)), int(mcp.group(2))
            elif "panicked" in err or rc == 101:
                # a panic that escaped the harness = harness bug -> inconclusive
                res.inconclusive.append(f"{engine} shard {shard}/{nshards}: harness error rc={rc}: {err[-400:]}")
                return res
            else:
                res.inconclusive.append(f"{engine} shard {shard}/{nshards}: exit {rc} without summary: {err[-400:]}")
                return res
        # Miri's validity check fires when `DynSizedStructure::cast` forms the typed
        # reference *before* its size assertion panics and that (never used, never
        # returned) reference reaches past the allocation. No byte is read and nothing
        # is handed out, so no property is violated (DESIGN section 5): count it, skip
        # the rest of this case and go on.
        benign = False
        if mm and "encountered a dangling reference" in mm.group(2):
            fr = re.search(r"stack backtrace:\s*0: ([^\n]*)", detail)
            if fr and re.search(r"DynSizedStructure::<[^\n]*>::cast::<", fr.group(1)):
                benign = True
        if benign and pos is not None:
            res.benign += 1
            restarts += 1
            if restarts > 40:
                res.inconclusive.append(f"{engine} shard {shard}/{nshards}: >40 restarts, rest of shard not explored")
                return res
            frm = pos + 1
            continue
        if case is None or case == 18446744073709551615:
            res.inconclusive.append(f"{engine} shard {shard}/{nshards}: {kind} outside any case: {err[-300:]}")
            return res
        site = first_repo_frame(detail) if detail else "?"
        res.crashes.append(dict(property=prop, engine=engine, kind=kind, case=case, site=site,
                                sig=(base_args[0] + ":" if base_args[0] != prop else "") + f"crash:{kind}@{site}", detail=detail[-2500:],
                                args=base_args + ["--shard", f"{shard}/{nshards}"]))
        restarts += 1
        if restarts > 20:
            res.inconclusive.append(f"{engine} shard {shard}/{nshards}: >20 restarts, rest of shard not explored")
            return res
        if pos is None or pos >= 18446744073709551615:
            res.inconclusive.append(f"{engine} shard {shard}/{nshards}: witness case {case} without position; rest of shard not explored")
            return res
        frm = pos + 1


def run_fuzz(prop, r, seed, logdir):
    """E6: coverage-guided exploration with libFuzzer + ASan (thorough tier). Returns
    (violations, coverage dict, inconclusive notes)."""
    fuzzdir = os.path.join(HARNESS, "fuzz")
    tdir = os.path.join(VERIF, "target-fuzz")
    env = dict(ENV_BASE)
    env["MB2_FUZZ_MODES"] = r["modes"]
    b = subprocess.run(["cargo", "+nightly", "fuzz", "build", "parse", "--fuzz-dir", fuzzdir, "--target-dir", tdir],
                       env=env, cwd=HARNESS, stdout=subprocess.PIPE, stderr=subprocess.STDOUT, text=True)
    if b.returncode != 0:
        return [], {}, [f"libFuzzer target did not build (E6 dropped for this run): {b.stdout[-300:]}"]
    corpus = os.path.join(tdir, "corpus-" + prop)
    arts = os.path.join(tdir, "artifacts-" + prop + "/")
    shutil.rmtree(arts, ignore_errors=True)
    os.makedirs(arts, exist_ok=True)
    if not os.path.isdir(corpus) or not os.listdir(corpus):
        ok, out = build("dev")
        if ok:
            e2 = dict(env)
            e2["MB2_CORPUS_DIR"] = corpus
            subprocess.run([binary("dev"), "CORPUS"], env=e2, cwd=HARNESS)
    secs = r.get("secs", 120)
    cmd = ["cargo", "+nightly", "fuzz", "run", "parse", "--fuzz-dir", fuzzdir, "--target-dir", tdir, corpus, "--",
           f"-max_total_time={secs}", "-timeout=10", "-max_len=4096", f"-fork={r.get('jobs', NCPU)}", f"-artifact_prefix={arts}", f"-seed={seed}"]
    try:
        p = subprocess.run(cmd, env=env, cwd=HARNESS, stdout=subprocess.PIPE, stderr=subprocess.STDOUT, text=True, timeout=secs + 600)
        out = p.stdout
    except subprocess.TimeoutExpired as e:
        return [], {}, [f"libFuzzer run: watchdog fired"]
    with open(os.path.join(logdir, "fuzz.log"), "w") as f:
        f.write(out[-400000:])
    stats = re.findall(r"^#(\d+): cov: (\d+) ft: (\d+) corp: (\d+)", out, re.M)
    execs, cov, ft, corp = (int(x) for x in stats[-1]) if stats else (0, 0, 0, 0)
    viol = []
    for a in sorted(os.listdir(arts)):
        path = os.path.join(arts, a)
        kind = a.split("-")[0]
        m = re.search(r"MONITOR (\[[^\n]*\])", out)
        ma = ASAN_ERR.search(out)
        what = m.group(1) if m else ("asan:" + ma.group(2).split(" on ")[0].strip() if ma else kind)
        keep = os.path.join(VERIF, "replays", f"{prop}-fuzz-{a}")
        os.makedirs(os.path.dirname(keep), exist_ok=True)
        shutil.copy(path, keep)
        viol.append(dict(property=prop, sig=f"fuzz:{what}", engine="fuzz", case=0, args=["FUZZONE"], artifact=keep,
                         detail=dict(what="libFuzzer artifact; replay with MB2_INPUT=<artifact> mb2mon FUZZONE (ASan build for memory errors)", tail=out[-1500:])))
    covd = dict(fuzz=dict(executions=execs, edge_coverage=cov, features=ft, corpus_entries=corp, seconds=secs, modes=r["modes"], artifacts=len(viol)))
    inc = [] if stats else ["libFuzzer run produced no statistics"]
    return viol, covd, inc


def shard_ids(procs, density, seed):
    n = procs * density
    off = seed % density
    return [(j * density + off) for j in range(procs)], n


# ------------------------------------------------------------------ check ----
def write_replay(prop, v):
    os.makedirs(os.path.join(VERIF, "replays"), exist_ok=True)
    h = hashlib.sha1((prop + v.get("sig", "") + v.get("engine", "")).encode()).hexdigest()[:12]
    path = os.path.join(VERIF, "replays", f"{prop}-{h}.json")
    with open(path, "w") as f:
        json.dump(v, f, indent=1)
    return path


def check(prop, tier, seed):
    t0 = time.time()
    htier = tier
    if tier == "smoke":
        # mutation screening (mutate.py): the native dev/release parts of the quick plan
        # with a few seconds per shard; never registered in MANIFEST.json
        budget = float(os.environ.get("MB2_SMOKE_BUDGET_S", "3"))
        keep = ("dev", "rel")
        import plans as _plans
        _plans.C08_ENGINES = list(keep)  # profile comparison only; feature configurations are left to the quick tier
        plan = [dict(r, budget_s=min(r.get("budget_s", budget), budget)) for r in PLANS[prop]["quick"] if r["engine"] in keep]
        htier = "quick"
    else:
        plan = PLANS[prop][tier]
    known = load_known()
    logdir = os.path.join(VERIF, "logs", f"{prop}-{tier}{ALT_TAG}")
    shutil.rmtree(logdir, ignore_errors=True)
    os.makedirs(logdir, exist_ok=True)
    evdir = os.environ.get("MB2_EVIDENCE_DIR", os.path.join(VERIF, "evidence"))
    os.makedirs(evdir, exist_ok=True)
    inconclusive = []
    # 1. build
    fuzz_runs = [r for r in plan if r["engine"] == "fuzz"]
    plan = [r for r in plan if r["engine"] != "fuzz"]
    engines = []
    for r in plan:
        if r["engine"] not in engines:
            engines.append(r["engine"])
    usable = set()
    for e in engines:
        ok, out = build(e)
        if ok:
            usable.add(e)
        else:
            with open(os.path.join(logdir, f"build-{e}.log"), "w") as f:
                f.write(out)
            inconclusive.append(f"build of engine {e} failed (see logs/{prop}-{tier}/build-{e}.log): {out[-300:]}")
    # 2. jobs
    jobs = []
    for r in plan:
        if r["engine"] not in usable:
            continue
        ids, n = shard_ids(r.get("procs", NCPU), r.get("density", 1), seed)
        args = [r.get("driver", prop), "--seed", str(seed), "--tier", htier]
        if "max_cases" in r:
            args += ["--max-cases", str(r["max_cases"])]
        if "budget_s" in r:
            args += ["--budget-ms", str(int(r["budget_s"] * 1000))]
        args += r.get("extra", [])
        for s in ids:
            jobs.append((r["engine"], args, s, n, r.get("timeout_s", 1800), logdir, prop))
    results = []
    # miri jobs are the long ones: start them first
    jobs.sort(key=lambda j: 0 if j[0].startswith("miri") else 1)
    with cf.ThreadPoolExecutor(max_workers=NCPU) as ex:
        futs = [ex.submit(run_shard, j) for j in jobs]
        for j, f in zip(jobs, futs):
            results.append((j, f.result()))
    # 3. fold
    per_engine = {}
    hashes = set()
    violations = []
    samples = []
    evaluations = 0
    overflow = 0
    benign_total = 0
    for (engine, args, s, n, _, _, _), r in results:
        pe = per_engine.setdefault(engine + ":" + args[0], dict(evaluations=0, cases_run=0, shards=0, counters={}, cut_by_budget=0, cases_total=0, nshards=n))
        for sm in r.summaries:
            pe["evaluations"] += sm["evaluations"]
            pe["cases_run"] += sm["cases_run"]
            pe["cases_total"] = sm["cases_total"]
            pe["shards"] += 1
            pe["cut_by_budget"] += 1 if sm.get("cut_by_budget") else 0
            evaluations += sm["evaluations"]
            overflow += sm.get("distinct_overflow", 0)
            for k, v in sm["counters"].items():
                pe["counters"][k] = pe["counters"].get(k, 0) + v
            for x in sm["samples"]:
                if len(samples) < 8 and x not in samples:
                    samples.append(x)
        hashes |= r.hashes
        benign_total += r.benign
        violations += r.violations + r.crashes
        inconclusive += r.inconclusive
    extra_cov = {}
    for r in fuzz_runs:
        v2, cov2, inc2 = run_fuzz(prop, r, seed, logdir)
        violations += v2
        extra_cov.update(cov2)
        inconclusive += inc2
        if cov2:
            evaluations += cov2["fuzz"]["executions"]
            per_engine["fuzz:" + prop] = dict(evaluations=cov2["fuzz"]["executions"], cases_run=cov2["fuzz"]["executions"], shards=1, counters={}, cut_by_budget=0, cases_total=0, nshards=1)
    # C08-style cross-configuration comparison
    post = PLANS[prop].get("post")
    if post:
        v2, cov2, inc2 = post(results, tier, seed, logdir)
        violations += v2
        extra_cov.update(cov2)
        inconclusive += inc2
    # 4. classify
    seen = {}
    for v in violations:
        key = v.get("sig", "?")
        seen.setdefault(key, []).append(v)
    new_viol = []
    known_hits = {}
    for sig, vs in seen.items():
        k = match_known(known, prop, sig)
        if k:
            known_hits.setdefault(k["id"], (k, []))[1].append(sig)
        else:
            new_viol.append((sig, vs))
    for kid, (k, sigs) in known_hits.items():
        print(f"KNOWN-FINDING: property={prop} {k['what']} [{kid}; observed as {sigs[0]}]")
    for sig, vs in new_viol:
        v = dict(vs[0])
        v["engines"] = sorted({x.get("engine", "?") for x in vs})
        v["count"] = len(vs)
        v["replay_cmd"] = "python3 verif.py replay <this file>"
        path = write_replay(prop, v)
        print(f"VIOLATION property={prop} replay={path}")
        print(f"  sig={sig} engines={v['engines']} case={v.get('case')}")
    wall = time.time() - t0
    decided = evaluations > 0
    cov = dict(
        evaluations=evaluations,
        distinct_nontrivial=len(hashes),
        rule=RULES[prop],
        samples=samples if samples else ["(no sample recorded)"],
        exhaustive=bool(PLANS[prop].get("exhaustive", {}).get(tier, False)) and not new_viol and all(
            (e + ":" + prop) in per_engine
            and per_engine[e + ":" + prop]["shards"] == per_engine[e + ":" + prop]["nshards"]
            and per_engine[e + ":" + prop]["cases_run"] == per_engine[e + ":" + prop]["cases_total"]
            and per_engine[e + ":" + prop]["cut_by_budget"] == 0
            for e in PLANS[prop].get("exhaustive_engines", {}).get(tier, ["dev", "rel"])),
        exhaustive_engines=PLANS[prop].get("exhaustive_engines", {}).get(tier, ["dev", "rel"]) if PLANS[prop].get("exhaustive", {}).get(tier, False) else [],
        distinct_cap_overflow=overflow,
        per_engine=per_engine,
        engines_used=sorted(usable),
        inconclusive=inconclusive,
        known_findings_observed=sorted(known_hits.keys()),
        miri_transient_dangling_reference_in_cast=benign_total,
        new_violation_signatures=[s for s, _ in new_viol],
    )
    if PLANS[prop].get("exhaustive_domain"):
        cov["exhaustive_domain"] = PLANS[prop]["exhaustive_domain"].get(tier, "")
    cov.update(extra_cov)
    ev = dict(
        property_id=prop,
        tier=tier,
        seed=seed,
        level="exploration",
        coverage=cov,
        assumptions=ASSUMPTIONS.get("*", []) + ASSUMPTIONS.get(prop, []),
        wall_s=round(wall, 2),
        violations=len(new_viol),
        verdict="violated" if new_viol else ("held-on-observed" if decided else "inconclusive"),
    )
    with open(os.path.join(evdir, f"{prop}.json"), "w") as f:
        json.dump(ev, f, indent=1, sort_keys=True)
    print(f"{prop} [{tier}] seed={seed}: evaluations={evaluations} distinct_nontrivial={len(hashes)} "
          f"violations={len(new_viol)} known={len(known_hits)} inconclusive_notes={len(inconclusive)} wall={wall:.1f}s")
    for e, pe in sorted(per_engine.items()):
        print(f"  {e}: shards={pe['shards']} cases={pe['cases_run']}/{pe['cases_total']} evaluations={pe['evaluations']}")
    for i in inconclusive[:10]:
        print("  INCONCLUSIVE:", i.replace("\n", " ")[:300])
    if new_viol:
        return 1
    if not decided:
        return 2
    return 0


def replay(path):
    v = json.load(open(path))
    engine = v["engine"]
    if engine == "fuzz":
        ok, out = build("asan")
        env = engine_env("asan")
        env["MB2_INPUT"] = v["artifact"]
        cmd = [binary("asan"), "FUZZONE"]
        print("$ MB2_INPUT=" + v["artifact"], " ".join(cmd))
        return 1 if subprocess.run(cmd, env=env, cwd=HARNESS).returncode != 0 else 0
    ok, out = build(engine)
    if not ok:
        print(out)
        return 2
    args = list(v["args"])
    # drop shard selection; run only the recorded case
    if "--shard" in args:
        i = args.index("--shard")
        del args[i:i + 2]
    args += ["--only", str(v["case"])]
    cmd = run_cmd(engine, args)
    print("$", " ".join(cmd))
    p = subprocess.run(cmd, env=engine_env(engine), cwd=HARNESS)
    return 1 if p.returncode != 0 else 0


def setup():
    rc = 0
    engines = sorted({r["engine"] for p in PLANS.values() for t in ("quick", "thorough") for r in p[t] if r["engine"] != "fuzz"})
    # builds are independent target dirs: run them in parallel
    with cf.ThreadPoolExecutor(max_workers=4) as ex:
        futs = {e: ex.submit(build, e) for e in engines}
        for e, f in futs.items():
            ok, out = f.result()
            print(f"setup: engine {e}: {'ok' if ok else 'FAILED'}")
            if not ok:
                print(out[-2000:])
                rc = 1
    return rc


def baseline_off():
    cmd = "cd /repo && cargo test --workspace --no-fail-fast --offline"
    return subprocess.run(cmd, shell=True, env=ENV_BASE).returncode


def main():
    if len(sys.argv) < 2:
        print(__doc__)
        return 2
    cmd = sys.argv[1]
    if cmd == "setup":
        return setup()
    if cmd == "baseline-off":
        return baseline_off()
    if cmd == "replay":
        return replay(sys.argv[2])
    if cmd == "check":
        prop = sys.argv[2]
        tier = os.environ.get("VERIF_TIER", "quick")
        if "--tier" in sys.argv:
            tier = sys.argv[sys.argv.index("--tier") + 1]
        seed = int(os.environ.get("VERIF_SEED", "1"))
        if prop not in PLANS:
            print(f"no check for {prop}")
            return 2
        return check(prop, tier, seed)
    print(__doc__)
    return 2


if __name__ == "__main__":
    sys.exit(main())
