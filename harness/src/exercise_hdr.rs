//! Program of safe calls on a loaded Multiboot2 header (C09) + transcript (C08).

use crate::exercise::{Opts, Sink, Tr};
use crate::region::Region;
use crate::util::*;
use core::fmt::Write as _;
use multiboot2_header::*;

// NB: the arguments contain the API calls themselves, so they are always
// evaluated; `on` only decides whether lines are kept for printing.
macro_rules! tl {
    ($tr:expr, $($a:tt)*) => {{
        let s = format!($($a)*);
        $tr.line(&s);
    }};
}

fn dbg<T: core::fmt::Debug + ?Sized>(ctx: &mut Ctx, reg: &Region, opts: &Opts, what: &str, v: &T) {
    if !opts.debug {
        return;
    }
    let cap = 4096 * reg.len().max(64);
    for pretty in [false, true] {
        let mut s = Sink { n: 0, cap };
        let r = catch(|| if pretty { write!(s, "{:#?}", v) } else { write!(s, "{:?}", v) });
        ctx.count(&format!("debug:{}:{}", what, if r.is_panic() { "Panic" } else { "Val" }));
        if s.n > cap {
            ctx.violation(&format!("debug-output-unbounded:{}", what), J::s(format!("{} bytes", s.n)));
        }
    }
}

fn view(ctx: &mut Ctx, reg: &Region, tr: &mut Tr, what: &str, addr: usize, len: usize, tag: Option<(usize, usize)>) {
    let off = reg.off_of(addr);
    tl!(tr, "  {} view@{}+{}", what, off, len);
    let in_region = (len == 0 && off >= 0 && off as usize <= reg.len()) || reg.contains(addr, len);
    if !in_region {
        ctx.violation(&format!("view-outside-header:{}", what), J::s(format!("{}: [{}, {}) leaves the {}-byte header", what, off, off + len as i64, reg.len())));
        return;
    }
    if let Some((toff, tsize)) = tag {
        if !(off >= toff as i64 && off + len as i64 <= (toff + round8(tsize)) as i64) {
            ctx.violation(&format!("view-outside-its-tag:{}", what), J::s(format!("{}: [{}, {}) not inside tag [{}, {})", what, off, off + len as i64, toff, toff + round8(tsize))));
            return;
        }
    }
    touch(unsafe { core::slice::from_raw_parts(addr as *const u8, len) });
    ctx.count("views-checked");
}

pub fn header(ctx: &mut Ctx, reg: &Region, tr: &mut Tr, opts: &Opts, h: &Multiboot2Header, mem: &[u8]) {
    tl!(tr, " magic {} arch {} length {} checksum {} ok {}", h.header_magic(), h.arch() as u32, h.length(), h.checksum(), h.verify_checksum());
    dbg(ctx, reg, opts, "Multiboot2Header", h);
    if let Out::Val(Ok(s)) = catch(|| multiboot2_common::DynSizedStructure::<Multiboot2BasicHeader>::ref_from_slice(reg.as_slice())) {
        dbg(ctx, reg, opts, "Multiboot2BasicHeader", s.header());
        let b = s.header();
        tl!(tr, " basic {} {} {} {} {}", b.header_magic(), b.arch() as u32, b.length(), b.checksum(), b.verify_checksum());
    }
    // walk
    let mut it = h.iter();
    dbg(ctx, reg, opts, "TagIter", &it);
    let bound = reg.len() / 8 + 1;
    let mut k = 0;
    loop {
        if k > bound {
            ctx.violation("tag-iteration-exceeds-bound", J::s(format!("{} items from a {}-byte header", k, reg.len())));
            break;
        }
        match catch(|| it.next()) {
            Out::Panic(_) => {
                tl!(tr, " walk Panic after {}", k);
                // next() after a caught panic: still only safe calls (see exercise.rs)
                for _ in 0..2 {
                    if let Out::Val(Some(t)) = catch(|| it.next()) {
                        let a = t as *const _ as *const u8 as usize;
                        view(ctx, reg, tr, "walk.item-after-panic", a, core::mem::size_of_val(t), None);
                    }
                }
                ctx.count("walk:next-after-panic");
                break;
            }
            Out::Val(None) => {
                tl!(tr, " walk end after {}", k);
                // M6b: the provided Iterator methods agree with the next() sequence
                crate::iterproto::check(ctx, "header-tags", &|| h.iter(), &|t: &multiboot2_common::DynSizedStructure<multiboot2_header::HeaderTagHeader>| (t as *const _ as *const u8 as usize, core::mem::size_of_val(t)), 4096, true);
                crate::iterproto::check_clone(ctx, "header-tags", &|| h.iter(), &|t: &multiboot2_common::DynSizedStructure<multiboot2_header::HeaderTagHeader>| (t as *const _ as *const u8 as usize, core::mem::size_of_val(t)), 4096);
                break;
            }
            Out::Val(Some(t)) => {
                let a = t as *const _ as *const u8 as usize;
                let hd = t.header();
                tl!(tr, " tag@{} typ {} flags {} size {} payload {}", reg.off_of(a), hd.typ() as u16, hd.flags() as u16, hd.size(), t.payload().len());
                view(ctx, reg, tr, "walk.item", a, core::mem::size_of_val(t), None);
                let p = t.payload();
                view(ctx, reg, tr, "walk.payload", p.as_ptr() as usize, p.len(), Some((a.wrapping_sub(reg.addr()), hd.size() as usize)));
                dbg(ctx, reg, opts, "GenericHeaderTag", t);
                k += 1;
            }
        }
    }
    macro_rules! g {
        ($name:expr, $get:expr, |$t:ident, $ext:ident| $body:expr) => {{
            match catch(|| $get) {
                Out::Panic(_) => tl!(tr, " {} Panic", $name),
                Out::Val(None) => tl!(tr, " {} None", $name),
                Out::Val(Some($t)) => {
                    let a = $t as *const _ as *const u8 as usize;
                    let sov = core::mem::size_of_val($t);
                    let off = a.wrapping_sub(reg.addr());
                    tl!(tr, " {} Some@{}+{}", $name, off, sov);
                    if !reg.contains(a, sov) {
                        ctx.violation(&format!("tag-view-outside-header:{}", $name), J::s(format!("at {} size {}", off as i64, sov)));
                    } else {
                        let size = le32(mem, off + 4) as usize;
                        if sov > round8(size) {
                            ctx.violation(&format!("tag-view-larger-than-tag:{}", $name), J::s(format!("in-memory size {} for declared size {}", sov, size)));
                        } else {
                            touch(unsafe { core::slice::from_raw_parts(a as *const u8, sov) });
                            tl!(tr, "  typ {} flags {} size {}", $t.typ() as u16, $t.flags() as u16, $t.size());
                            ctx.count(concat!("accessors:", $name));
                            let $ext = (off, size);
                            $body;
                            dbg(ctx, reg, opts, $name, $t);
                        }
                    }
                }
            }
        }};
    }
    g!("information_request", h.information_request_tag(), |t, e| {
        let r = t.requests();
        tl!(tr, "  requests n={} {:?}", r.len(), r.iter().map(|x| u32::from(*x)).collect::<Vec<_>>());
        view(ctx, reg, tr, "information_request.requests", r.as_ptr() as usize, core::mem::size_of_val(r), Some(e));
    });
    g!("address", h.address_tag(), |t, e| {
        let _ = e;
        tl!(tr, "  address {} {} {} {}", t.header_addr(), t.load_addr(), t.load_end_addr(), t.bss_end_addr());
    });
    g!("entry_address", h.entry_address_tag(), |t, e| {
        let _ = e;
        tl!(tr, "  entry {}", t.entry_addr());
    });
    g!("entry_address_efi32", h.entry_address_efi32_tag(), |t, e| {
        let _ = e;
        tl!(tr, "  entry32 {}", t.entry_addr());
    });
    g!("entry_address_efi64", h.entry_address_efi64_tag(), |t, e| {
        let _ = e;
        tl!(tr, "  entry64 {}", t.entry_addr());
    });
    g!("console_flags", h.console_flags_tag(), |t, e| {
        let _ = e;
        tl!(tr, "  console {}", t.console_flags() as u32);
    });
    g!("framebuffer", h.framebuffer_tag(), |t, e| {
        let _ = e;
        tl!(tr, "  fb {} {} {}", t.width(), t.height(), t.depth());
    });
    g!("module_align", h.module_align_tag(), |t, e| {
        let _ = (t, e);
    });
    g!("efi_boot_services", h.efi_boot_services_tag(), |t, e| {
        let _ = (t, e);
    });
    g!("relocatable", h.relocatable_tag(), |t, e| {
        let _ = e;
        tl!(tr, "  reloc {} {} {} {}", t.min_addr(), t.max_addr(), t.align(), t.preference() as u32);
    });
}
