#!/usr/bin/env python3
"""Mechanical mutation screening of the checks (complements the hand-made seeded changes).

  mutate.py gen                       enumerate mutants of the three crates -> /tmp/mutants/
  mutate.py run [--jobs N] [--sample K] [--only ID,ID] [--ops rel,ari,..] [--files substr,..]   evaluate mutants, results -> mutation/results.jsonl
  mutate.py seeds [--jobs N]          evaluate the stored seeded changes with the same (smoke) pipeline
  mutate.py report                    summary of mutation/results.jsonl -> mutation/REPORT.md

A mutant is a one-token change of library source (comparison, arithmetic, literal,
logical operator, removed assertion, disabled guard, swapped method). Pipeline per mutant,
in a scratch worktree of /repo under /tmp (never /repo itself):
  1. cargo build --workspace                 fails -> "stillborn" (not a candidate)
  2. cargo test --workspace (the pinned suite) fails -> "killed-by-suite" (not a candidate)
  3. `verif.py check <P> --tier smoke` for the properties anchored in the mutated file
     first, then all others; first VIOLATION -> "killed" by that check
  4. no check fires -> "survived": triaged by hand (equivalent / outside every property / gap)
The smoke tier is the native dev+release part of the quick tier with a few seconds per
shard, so a survivor here may still be caught by the quick tier (Miri, ASan, longer runs);
survivors are re-run with `--tier quick` before they are called a gap.
"""
import concurrent.futures as cf
import hashlib
import json
import os
import re
import subprocess
import sys
import threading

VERIF = os.path.dirname(os.path.abspath(__file__))
REPO = "/repo"
OUT = "/tmp/mutants"
CRATES = ["multiboot2", "multiboot2-common", "multiboot2-header"]
SKIP_FILES = {"multiboot2-common/src/test_utils.rs"}
ENV = dict(os.environ, CARGO_NET_OFFLINE="true")
ENV.pop("RUSTFLAGS", None)

PROPS = [json.loads(l) for l in open(os.path.join(VERIF, "properties.jsonl"))]
ALL = [p["id"] for p in PROPS]


def anchored(path):
    return [p["id"] for p in PROPS if path in p["anchors"]["files"]]


# ------------------------------------------------------------------ operators ----
REL = [(" <= ", " < "), (" < ", " <= "), (" >= ", " > "), (" > ", " >= "), (" == ", " != "), (" != ", " == ")]
ARI = [(" + ", " - "), (" - ", " + "), (" * ", " / "), (" / ", " * "), (" % ", " / ")]
LOG = [(" && ", " || "), (" || ", " && ")]
METH = [("saturating_sub(", "wrapping_sub("), ("checked_add(", "wrapping_add_opt("), (".min(", ".max("), (".max(", ".min("),
        (".is_some()", ".is_none()"), (".is_none()", ".is_some()"), (".is_empty()", ".is_empty() == false"),
        ("wrapping_add(", "wrapping_sub("), ("wrapping_sub(", "wrapping_add("), ("div_ceil(", "div_floor_("),
        (".first()", ".last()"), (".last()", ".first()"), ("increase_to_alignment(", "core::convert::identity("),
        (".skip(", ".take("), (".take(", ".skip("), (".find(", ".rfind_("), (".any(", ".all("), (".all(", ".any(")]
METH = [m for m in METH if not m[1].endswith("_(") and "wrapping_add_opt" not in m[1]]


def in_string(line, pos):
    return line[:pos].count('"') % 2 == 1


def code_part(line):
    """the line without a trailing // comment (naive, good enough for this code base)"""
    i = line.find("//")
    while i != -1 and in_string(line, i):
        i = line.find("//", i + 2)
    return line if i == -1 else line[:i]


def mutants_of_line(line):
    """yields (operator, new line)"""
    code = code_part(line)
    tail = line[len(code):]
    st = code.strip()
    if not st or st.startswith("#[") or st.startswith("use ") or st.startswith("pub use ") or st.startswith("//"):
        return
    cond_ctx = re.search(r"\b(if|while|assert|assert_eq|assert_ne|debug_assert|matches|return|let)\b|&&|\|\||=>", code) is not None
    for a, b in REL:
        if a in (" < ", " > ") and not cond_ctx:
            continue
        for m in re.finditer(re.escape(a), code):
            if in_string(code, m.start()):
                continue
            # generics / arrows: "-> ", "=> " handled by the spaces; skip `impl<T> X for`, where clauses
            if a in (" < ", " > ") and re.search(r"\b(impl|fn|struct|type|where|dyn)\b", code):
                continue
            yield ("rel:" + a.strip() + "->" + b.strip(), code[:m.start()] + b + code[m.end():] + tail)
    for a, b in ARI + LOG:
        for m in re.finditer(re.escape(a), code):
            if in_string(code, m.start()):
                continue
            if a == " * " and re.search(r"\*\s*(const|mut)\b", code[m.start():m.start() + 9]):
                continue
            if a == " + " and re.search(r"\b(impl|dyn|where)\b|:\s*\w+(\s*\+\s*\w+)+\s*[,>{]", code):
                continue  # trait bounds
            yield (("ari:" if (a, b) in ARI else "log:") + a.strip() + "->" + b.strip(), code[:m.start()] + b + code[m.end():] + tail)
    for a, b in METH:
        for m in re.finditer(re.escape(a), code):
            if not in_string(code, m.start()):
                yield ("meth:" + a.strip("(.") + "->" + b.strip("(."), code[:m.start()] + b + code[m.end():] + tail)
    # integer literals
    for m in re.finditer(r"(?<![\w.])(0x[0-9a-fA-F_]+|\d[\d_]*)(?![\w.]|\.\d)", code):
        if in_string(code, m.start()):
            continue
        txt = m.group(1)
        if re.search(r"\b(repr|align|derive)\b", code):
            continue
        try:
            v = int(txt.replace("_", ""), 0)
        except ValueError:
            continue
        hexa = txt.lower().startswith("0x")
        for nv in ([v + 1] + ([v - 1] if v > 0 else [])):
            yield ("lit:%s->%s" % (txt, hex(nv) if hexa else nv), code[:m.start()] + (hex(nv) if hexa else str(nv)) + code[m.end():] + tail)
    # disabled / negated guards
    m = re.match(r"^(\s*(?:\}\s*else\s+)?if\s+)(?!let\b)(.+?)(\s*\{\s*)$", code)
    if m and "let " not in m.group(2):
        yield ("guard:negated", m.group(1) + "!(" + m.group(2) + ")" + m.group(3) + tail)
        yield ("guard:off", m.group(1) + "false && (" + m.group(2) + ")" + m.group(3) + tail)
    # removed single-line assertion
    if re.match(r"^\s*(debug_)?assert(_eq|_ne)?!\(.*\);\s*$", code):
        yield ("assert:removed", re.match(r"^\s*", code).group(0) + "// (mutant: assertion removed)" + tail)


def library_lines(text):
    """(index, line) of non-test library code: everything before the first `#[cfg(test)]`"""
    lines = text.split("\n")
    out = []
    depth_doc = False
    for i, l in enumerate(lines):
        if re.match(r"#\[cfg\((all\()?test\b", l.strip()) and i + 1 < len(lines) and re.match(r"\s*(pub )?mod \w+", lines[i + 1]):
            break
        if l.strip().startswith("///") or l.strip().startswith("//!"):
            continue
        out.append((i, l))
    _ = depth_doc
    return lines, out


def multi_line_asserts(lines, upto):
    """(first, last) line index of assertions that span several lines"""
    res = []
    i = 0
    while i < upto:
        l = lines[i]
        if re.match(r"^\s*(debug_)?assert(_eq|_ne)?!\($", l.rstrip()):
            ind = re.match(r"^\s*", l).group(0)
            j = i + 1
            while j < upto and not (lines[j].startswith(ind + ");")):
                j += 1
            if j < upto:
                res.append((i, j))
            i = j
        i += 1
    return res


def gen():
    os.makedirs(OUT, exist_ok=True)
    for f in os.listdir(OUT):
        os.remove(os.path.join(OUT, f))
    index = []
    for c in CRATES:
        d = os.path.join(REPO, c, "src")
        for root, _, files in os.walk(d):
            for fn in sorted(files):
                if not fn.endswith(".rs"):
                    continue
                path = os.path.relpath(os.path.join(root, fn), REPO)
                if path in SKIP_FILES:
                    continue
                text = open(os.path.join(REPO, path)).read()
                lines, lib = library_lines(text)
                upto = (lib[-1][0] + 1) if lib else 0
                seen = set()
                cands = []
                for i, l in lib:
                    for op, nl in mutants_of_line(l):
                        if nl != l and (i, nl) not in seen:
                            seen.add((i, nl))
                            cands.append((op, i, i, [nl]))
                for (a, b) in multi_line_asserts(lines, upto):
                    cands.append(("assert:removed", a, b, [re.match(r"^\s*", lines[a]).group(0) + "// (mutant: assertion removed)"]))
                for op, a, b, repl in cands:
                    new = lines[:a] + repl + lines[b + 1:]
                    mid = "m%05d" % len(index)
                    p = subprocess.run(["diff", "-u", "--label", "a/" + path, "--label", "b/" + path, os.path.join(REPO, path), "-"],
                                       input="\n".join(new), stdout=subprocess.PIPE, text=True)
                    open(os.path.join(OUT, mid + ".diff"), "w").write(p.stdout)
                    index.append(dict(id=mid, file=path, line=a + 1, op=op, old=lines[a].strip(), new=repl[0].strip()))
    json.dump(index, open(os.path.join(OUT, "index.json"), "w"), indent=1)
    by = {}
    for m in index:
        by[m["op"].split(":")[0]] = by.get(m["op"].split(":")[0], 0) + 1
    print(len(index), "mutants", by)


# ------------------------------------------------------------------ pipeline ----
def sh(cmd, cwd=None, env=None, timeout=1800):
    # own process group: a mutant can make a test binary loop forever, and killing only
    # cargo would leave that grandchild running (it happened: one ate two cores for a day)
    import signal
    p = subprocess.Popen(cmd, cwd=cwd, env=env or ENV, stdout=subprocess.PIPE, stderr=subprocess.STDOUT, text=True, start_new_session=True)
    try:
        out, _ = p.communicate(timeout=timeout)
        return p.returncode, out
    except subprocess.TimeoutExpired:
        try:
            os.killpg(p.pid, signal.SIGKILL)
        except OSError:
            pass
        p.wait()
        return 124, ""


class Slot:
    """one scratch worktree + its build directories"""

    def __init__(self, k):
        self.k = k
        self.wt = f"/tmp/wt-mut{k}"
        self.tag = f"-mut{k}"
        self.ev = f"/tmp/mut-ev{k}"
        rc, _ = sh(["git", "-C", REPO, "worktree", "add", "-q", "--detach", self.wt, "HEAD"])
        if rc != 0:
            sh(["git", "-C", self.wt, "checkout", "-q", "--detach", subprocess.check_output(["git", "-C", REPO, "rev-parse", "HEAD"], text=True).strip()])
        self.reset()
        self.env = dict(ENV, CARGO_TARGET_DIR=f"/tmp/wt-mut{k}-target")

    def reset(self):
        sh(["git", "-C", self.wt, "checkout", "--", "."])
        sh(["git", "-C", self.wt, "clean", "-fdq"])

    def evaluate(self, patch, order, tier="smoke", stop_at_first=True, skip_suite=False):
        self.reset()
        rc, out = sh(["git", "-C", self.wt, "apply", patch])
        if rc != 0:
            return dict(status="patch-does-not-apply", detail=out[-300:])
        try:
            if not skip_suite:
                rc, out = sh(["cargo", "build", "--workspace", "--offline", "-q"], cwd=self.wt, env=self.env)
                if rc != 0:
                    return dict(status="stillborn", detail=[l for l in out.splitlines() if l.startswith("error")][:2])
                rc, out = sh(["cargo", "test", "--workspace", "--no-fail-fast", "--offline", "-q"], cwd=self.wt, env=self.env, timeout=900)
                if rc != 0:
                    failed = re.findall(r"^test (\S+) \.\.\. FAILED|^---- (\S+) stdout", out, re.M)
                    return dict(status="killed-by-suite", detail=sorted({a or b for a, b in failed})[:4] or out[-200:])
            fired = []
            inconclusive = []
            env = dict(ENV, MB2_REPO=self.wt, MB2_ALT_TAG=self.tag, MB2_EVIDENCE_DIR=self.ev)
            for p in order:
                rc, out = sh([sys.executable, os.path.join(VERIF, "verif.py"), "check", p, "--tier", tier], cwd=VERIF, env=env, timeout=3600)
                if "build of engine" in out and "failed" in out:
                    return dict(status="harness-does-not-build", detail=out[-300:])
                sigs = re.findall(r"^  sig=(.*?) engines=", out, re.M)
                if rc == 1 and sigs:
                    fired.append(dict(check=p, sigs=sigs[:3]))
                    if stop_at_first:
                        break
                elif rc not in (0, 1):
                    inconclusive.append(p)
            if fired:
                return dict(status="killed", by=fired, inconclusive=inconclusive)
            return dict(status="survived", inconclusive=inconclusive)
        finally:
            self.reset()


def order_for(path):
    first = anchored(path)
    return first + [p for p in ALL if p not in first]


def run(argv):
    jobs = int(argv[argv.index("--jobs") + 1]) if "--jobs" in argv else 4
    index = json.load(open(os.path.join(OUT, "index.json")))
    if "--only" in argv:
        ids = set(argv[argv.index("--only") + 1].split(","))
        index = [m for m in index if m["id"] in ids]
    if "--files" in argv:
        pats = argv[argv.index("--files") + 1].split(",")
        index = [m for m in index if any(x in m["file"] for x in pats)]
    if "--ops" in argv:
        ops = argv[argv.index("--ops") + 1].split(",")
        index = [m for m in index if m["op"].split(":")[0] in ops]
    if "--sample" in argv:
        k = int(argv[argv.index("--sample") + 1])
        index = sorted(index, key=lambda m: hashlib.sha1(("s1" + m["id"] + m["file"] + str(m["line"]) + m["op"]).encode()).hexdigest())[:k]
    os.makedirs(os.path.join(VERIF, "mutation"), exist_ok=True)
    resf = os.path.join(VERIF, "mutation", "results.jsonl")
    done = set()
    if "--redo-survivors" in argv and os.path.exists(resf):
        keep = [l for l in open(resf) if json.loads(l)["status"] != "survived"]
        open(resf, "w").writelines(keep)
    if "--redo" in argv and os.path.exists(resf):
        ids = set(argv[argv.index("--redo") + 1].split(","))
        keep = [l for l in open(resf) if json.loads(l)["id"] not in ids]
        open(resf, "w").writelines(keep)
        index = [m for m in index if m["id"] in ids]
    if os.path.exists(resf):
        for l in open(resf):
            r = json.loads(l)
            done.add((r["file"], r["line"], r["op"], r["new"]))
    todo = [m for m in index if (m["file"], m["line"], m["op"], m["new"]) not in done]
    print(len(todo), "mutants to evaluate,", len(index) - len(todo), "already done")
    lock = threading.Lock()
    slots = [Slot(k) for k in range(jobs)]
    free = list(slots)

    def work(m):
        with lock:
            s = free.pop()
        try:
            r = s.evaluate(os.path.join(OUT, m["id"] + ".diff"), order_for(m["file"]))
        except Exception as e:  # noqa: BLE001
            r = dict(status="pipeline-error", detail=repr(e))
        with lock:
            free.append(s)
            rec = dict(m)
            rec.update(r)
            with open(resf, "a") as f:
                f.write(json.dumps(rec) + "\n")
            print(m["id"], m["file"], m["line"], m["op"], "=>", r["status"], r.get("by", [{}])[0].get("check", "") if r.get("by") else "", flush=True)

    with cf.ThreadPoolExecutor(max_workers=jobs) as ex:
        list(ex.map(work, todo))
    cleanup(slots)


def cleanup(slots):
    import shutil
    for s in slots:
        sh(["git", "-C", REPO, "worktree", "remove", "--force", s.wt])
        shutil.rmtree(s.env["CARGO_TARGET_DIR"], ignore_errors=True)
        shutil.rmtree(s.ev, ignore_errors=True)
        shutil.rmtree(os.path.join(VERIF, ".alt-harness" + s.tag), ignore_errors=True)
        for n in os.listdir(VERIF):
            if n.startswith("target-alt" + s.tag + "-"):
                shutil.rmtree(os.path.join(VERIF, n), ignore_errors=True)


def seeds(argv):
    """the stored seeded changes through the smoke pipeline: which are caught by the target check at smoke strength"""
    jobs = int(argv[argv.index("--jobs") + 1]) if "--jobs" in argv else 4
    tier = argv[argv.index("--tier") + 1] if "--tier" in argv else "smoke"
    sd = os.path.join(VERIF, "seeded")
    names = sorted(os.listdir(sd))
    lock = threading.Lock()
    slots = [Slot(k) for k in range(jobs)]
    free = list(slots)
    res = {}

    def work(n):
        meta = json.load(open(os.path.join(sd, n, "meta.json")))
        with lock:
            s = free.pop()
        r = s.evaluate(os.path.join(sd, n, "patch.diff"), [meta["property"]], tier=tier, skip_suite=True)
        with lock:
            free.append(s)
            res[n] = r
            print(n, "=>", r["status"], r.get("by", ""), flush=True)

    with cf.ThreadPoolExecutor(max_workers=jobs) as ex:
        list(ex.map(work, names))
    os.makedirs(os.path.join(VERIF, "mutation"), exist_ok=True)
    json.dump(res, open(os.path.join(VERIF, "mutation", f"seeds-{tier}.json"), "w"), indent=1, sort_keys=True)
    print("caught by the target check at", tier, "strength:", sum(1 for r in res.values() if r["status"] == "killed"), "of", len(res))
    cleanup(slots)


def report():
    resf = os.path.join(VERIF, "mutation", "results.jsonl")
    rs = [json.loads(l) for l in open(resf)]
    st = {}
    for r in rs:
        st[r["status"]] = st.get(r["status"], 0) + 1
    by = {}
    for r in rs:
        if r["status"] == "killed":
            by[r["by"][0]["check"]] = by.get(r["by"][0]["check"], 0) + 1
    tri = {}
    tf = os.path.join(VERIF, "mutation", "triage.json")
    if os.path.exists(tf):
        tri = json.load(open(tf))
    cand = st.get("killed", 0) + st.get("survived", 0)
    classes = {}
    for r in rs:
        if r["status"] == "survived":
            c = tri.get(f"{r['file']}:{r['line']}:{r['op']}:{r['new']}", "untriaged").split(":")[0].split(" under")[0].split(" for ")[0].split(" in effect")[0]
            classes[c] = classes.get(c, 0) + 1
    out = ["# Mechanical mutation screening (mutate.py)", "",
           f"{len(rs)} mutants evaluated: " + ", ".join(f"{k} {v}" for k, v in sorted(st.items())), "",
           f"Candidates (compile, pass the pinned suite): {cand}; killed by a check at smoke strength: {st.get('killed', 0)}.", "",
           "Killed, by first check that fired: " + ", ".join(f"{k} {v}" for k, v in sorted(by.items())), "",
           "Survivors by triage class: " + ", ".join(f"{k} {v}" for k, v in sorted(classes.items())), "",
           "## Survivors", "", "| mutant | file:line | operator | change | triage |", "|---|---|---|---|---|"]
    for r in rs:
        if r["status"] == "survived":
            key = f"{r['file']}:{r['line']}:{r['op']}:{r['new']}"
            out.append(f"| {r['id']} | {r['file']}:{r['line']} | {r['op']} | `{r['old'][:70]}` -> `{r['new'][:70]}` | {tri.get(key, 'untriaged')} |")
    open(os.path.join(VERIF, "mutation", "REPORT.md"), "w").write("\n".join(out) + "\n")
    print("\n".join(out[:8]))


if __name__ == "__main__":
    cmd = sys.argv[1] if len(sys.argv) > 1 else ""
    if cmd == "gen":
        gen()
    elif cmd == "run":
        run(sys.argv)
    elif cmd == "seeds":
        seeds(sys.argv)
    elif cmd == "report":
        report()
    else:
        print(__doc__)
        sys.exit(2)
