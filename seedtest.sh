#!/bin/bash
# usage: seedtest.sh <patch.diff> <tier> <check ids...>   -- applies a seeded change to /repo, runs the checks, reverts
set -u
patch=$1; tier=$2; shift 2
cd /repo || exit 2
if ! git diff --quiet; then echo "/repo not clean"; exit 2; fi
git apply "$patch" || { echo "patch does not apply"; exit 2; }
trap 'git -C /repo checkout -- . ; git -C /repo clean -fdq -- multiboot2/tests multiboot2-header/tests multiboot2-common/tests 2>/dev/null' EXIT
cd /verif
for c in "$@"; do
  echo "---- $c"
  python3 verif.py check $c --tier $tier 2>&1 | grep -E "^VIOLATION|^  sig=|^KNOWN|^C[0-9]+ \[|INCONCLUSIVE" | head -12
done
