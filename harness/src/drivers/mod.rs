//! One monitor/driver per property.

use crate::util::Ctx;

pub mod c01;
pub mod c02;
pub mod c03;
pub mod c04;
pub mod c05;
#[cfg(feature = "builder")]
pub mod c06;
#[cfg(feature = "builder")]
pub mod c07;
pub mod c08;
pub mod c09;
pub mod c10;
pub mod c11;
#[cfg(feature = "builder")]
pub mod c12;
pub mod c13;
pub mod c14;
pub mod c15;
#[cfg(feature = "builder")]
pub mod c16;
pub mod c17;
pub mod c18;
pub mod c19;
pub mod c20;

pub trait Driver {
    /// number of case indices in this tier's case space
    fn ncases(&self, ctx: &Ctx) -> u64;
    /// generate + execute + judge case `idx` (deterministic in (seed, tier, idx))
    fn run_case(&mut self, ctx: &mut Ctx, idx: u64);
    fn finish(&mut self, _ctx: &mut Ctx) {}
}

pub fn make(name: &str) -> Option<Box<dyn Driver>> {
    Some(match name {
        "C01" => Box::new(c01::C01),
        "C01vbe" => Box::new(c01::C01Vbe),
        "C09" => Box::new(c09::C09),
        "C08" => Box::new(c08::C08::new()),
        "C02" => Box::new(c02::C02),
        "C03" => Box::new(c03::C03::new()),
        "C14" => Box::new(c14::C14),
        "C10" => Box::new(c10::C10),
        "C05" => Box::new(c05::C05),
        "C04" => Box::new(c04::C04),
        "C11" => Box::new(c11::C11),
        #[cfg(feature = "builder")]
        "C06" => Box::new(c06::C06),
        #[cfg(feature = "builder")]
        "C07" => Box::new(c07::C07),
        #[cfg(feature = "builder")]
        "C12" => Box::new(c12::C12),
        #[cfg(feature = "builder")]
        "C16" => Box::new(c16::C16),
        "C17" => Box::new(c17::C17),
        "C15" => Box::new(c15::C15),
        "C18" => Box::new(c18::C18),
        "C19" => Box::new(c19::C19),
        "C13" => Box::new(c13::C13),
        "C20" => Box::new(c20::C20),
        _ => return None,
    })
}

/// ElfSectionType -> reference class (shared by C19/C20/C01)
pub fn c20_class(t: multiboot2::ElfSectionType) -> crate::spec::ElfClass {
    use crate::spec::ElfClass;
    use multiboot2::ElfSectionType as T;
    match t {
        T::Unused => ElfClass::Unused,
        T::ProgramSection => ElfClass::Program,
        T::LinkerSymbolTable => ElfClass::SymTab,
        T::StringTable => ElfClass::StrTab,
        T::RelaRelocation => ElfClass::Rela,
        T::SymbolHashTable => ElfClass::Hash,
        T::DynamicLinkingTable => ElfClass::Dynamic,
        T::Note => ElfClass::Note,
        T::Uninitialized => ElfClass::NoBits,
        T::RelRelocation => ElfClass::Rel,
        T::Reserved => ElfClass::Reserved,
        T::DynamicLoaderSymbolTable => ElfClass::DynSym,
        T::EnvironmentSpecific => ElfClass::EnvSpecific,
        T::ProcessorSpecific => ElfClass::ProcSpecific,
    }
}
