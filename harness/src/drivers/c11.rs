//! C11 — header accessors and typed getters decode the specified fields.

use super::Driver;
use crate::gen;
use crate::region::Region;
use crate::spec::*;
use crate::util::*;
use multiboot2_header::*;

pub struct C11;

fn addr_of<T: ?Sized>(t: &T) -> usize {
    t as *const T as *const u8 as usize
}

struct Cmp {
    bad: Vec<String>,
    n: u64,
}
impl Cmp {
    fn eq<T: PartialEq + core::fmt::Debug>(&mut self, field: &str, got: T, exp: T) {
        self.n += 1;
        if got != exp {
            self.bad.push(format!("{}: got {:?}, stored {:?}", field, got, exp));
        }
    }
}

fn check(h: &Multiboot2Header, mem: &[u8], tags: &[TagAt], base: usize) -> (Vec<String>, u64) {
    let mut c = Cmp { bad: vec![], n: 0 };
    c.eq("header_magic", h.header_magic(), le32(mem, 0));
    c.eq("arch", h.arch() as u32, le32(mem, 4));
    c.eq("length", h.length(), le32(mem, 8));
    c.eq("checksum", h.checksum(), le32(mem, 12));
    c.eq("verify_checksum", h.verify_checksum(), true);
    // walk: from offset 16, steps of size rounded up to 8, to the declared length
    let (rw, end) = walk(mem, 16, le32(mem, 8) as usize);
    c.eq("reference-walk-sane", (rw.as_slice(), end), (tags, WalkEnd::Complete));
    let got: Vec<(usize, u16, u16, u32, usize, usize)> = h
        .iter()
        .map(|t| {
            touch(t.payload());
            (addr_of(t) - base, t.header().typ() as u16, t.header().flags() as u16, t.header().size(), t.payload().len(), core::mem::size_of_val(t))
        })
        .collect();
    let exp: Vec<(usize, u16, u16, u32, usize, usize)> = tags.iter().map(|t| (t.off, t.htyp(), t.hflags(), t.size, t.size as usize - 8, round8(t.size as usize))).collect();
    c.eq("iter", got, exp);
    // the terminator has no getter: view it through a cast
    for t in h.iter() {
        if t.header().typ() == HeaderTagType::End && t.header().size() == 8 {
            let e = t.cast::<EndHeaderTag>();
            let off = addr_of(t) - base;
            c.eq("end.typ", e.typ() as u16, le16(mem, off));
            c.eq("end.flags", e.flags() as u16, le16(mem, off + 2));
            c.eq("end.size", e.size(), le32(mem, off + 4));
        }
    }
    let first = |ty: u16| tags.iter().find(|t| t.htyp() == ty).copied();
    macro_rules! sel {
        ($name:expr, $ty:expr, $get:expr) => {{
            let f = first($ty);
            let o = $get;
            c.eq(concat!($name, ".getter-selects-first"), o.map(|t| addr_of(t) - base), f.map(|t| t.off));
            match (o, f) {
                (Some(t), Some(f)) => Some((t, &mem[f.off..f.off + f.size as usize], f)),
                _ => None,
            }
        }};
    }
    macro_rules! common {
        ($name:expr, $t:expr, $b:expr) => {{
            c.eq(concat!($name, ".typ"), $t.typ() as u16, le16($b, 0));
            c.eq(concat!($name, ".flags"), $t.flags() as u16, le16($b, 2));
            c.eq(concat!($name, ".size"), $t.size(), le32($b, 4));
        }};
    }
    if let Some((t, b, f)) = sel!("information_request", H_INFOREQ, h.information_request_tag()) {
        common!("information_request", t, b);
        let r = t.requests();
        c.eq("information_request.requests.len", r.len(), (b.len() - 8) / 4);
        c.eq("information_request.requests.addr", addr_of(r) - base, f.off + 8);
        for (i, x) in r.iter().enumerate().take((b.len() - 8) / 4) {
            c.eq("information_request.request", u32::from(*x), le32(b, 8 + 4 * i));
        }
    }
    if let Some((t, b, _)) = sel!("address", H_ADDRESS, h.address_tag()) {
        common!("address", t, b);
        c.eq("address.header_addr", t.header_addr(), le32(b, 8));
        c.eq("address.load_addr", t.load_addr(), le32(b, 12));
        c.eq("address.load_end_addr", t.load_end_addr(), le32(b, 16));
        c.eq("address.bss_end_addr", t.bss_end_addr(), le32(b, 20));
    }
    if let Some((t, b, _)) = sel!("entry_address", H_ENTRY, h.entry_address_tag()) {
        common!("entry_address", t, b);
        c.eq("entry_address.entry_addr", t.entry_addr(), le32(b, 8));
    }
    if let Some((t, b, _)) = sel!("console_flags", H_CONSOLE, h.console_flags_tag()) {
        common!("console_flags", t, b);
        c.eq("console_flags.console_flags", t.console_flags() as u32, le32(b, 8));
    }
    if let Some((t, b, _)) = sel!("framebuffer", H_FB, h.framebuffer_tag()) {
        common!("framebuffer", t, b);
        c.eq("framebuffer.width", t.width(), le32(b, 8));
        c.eq("framebuffer.height", t.height(), le32(b, 12));
        c.eq("framebuffer.depth", t.depth(), le32(b, 16));
    }
    if let Some((t, b, _)) = sel!("module_align", H_MODALIGN, h.module_align_tag()) {
        common!("module_align", t, b);
    }
    if let Some((t, b, _)) = sel!("efi_bs", H_EFIBS, h.efi_boot_services_tag()) {
        common!("efi_bs", t, b);
    }
    if let Some((t, b, _)) = sel!("entry_efi32", H_ENTRY_EFI32, h.entry_address_efi32_tag()) {
        common!("entry_efi32", t, b);
        c.eq("entry_efi32.entry_addr", t.entry_addr(), le32(b, 8));
    }
    if let Some((t, b, _)) = sel!("entry_efi64", H_ENTRY_EFI64, h.entry_address_efi64_tag()) {
        common!("entry_efi64", t, b);
        c.eq("entry_efi64.entry_addr", t.entry_addr(), le32(b, 8));
    }
    if let Some((t, b, _)) = sel!("relocatable", H_RELOC, h.relocatable_tag()) {
        common!("relocatable", t, b);
        c.eq("relocatable.min_addr", t.min_addr(), le32(b, 8));
        c.eq("relocatable.max_addr", t.max_addr(), le32(b, 12));
        c.eq("relocatable.align", t.align(), le32(b, 16));
        c.eq("relocatable.preference", t.preference() as u32, le32(b, 20));
    }
    (c.bad, c.n)
}

impl C11 {
    fn region(&self, ctx: &mut Ctx, bytes: Vec<u8>, tags: Vec<TagAt>, label: &str) {
        let reg = Region::new(ctx.placement, &bytes);
        ctx.eval();
        let witness = |what: String| {
            J::obj(vec![
                ("what", J::s(what)),
                ("workload", J::s(label)),
                ("header", J::S(hex_trunc(&bytes, 160))),
                ("walk(off,type,flags,size)", J::s(format!("{:?}", tags.iter().map(|t| (t.off, t.htyp(), t.hflags(), t.size)).collect::<Vec<_>>()))),
            ])
        };
        let r = catch(|| {
            let h = unsafe { Multiboot2Header::load(reg.ptr().cast::<Multiboot2BasicHeader>()) };
            match h {
                Ok(h) => Ok(check(&h, &bytes, &tags, reg.addr())),
                Err(e) => Err(format!("{:?}", e)),
            }
        });
        match r {
            Out::Panic(site) => ctx.violation(&format!("panic-on-valid-header@{}", site), witness("panic".into())),
            Out::Val(Err(e)) => ctx.violation("valid-header-does-not-load", witness(e)),
            Out::Val(Ok((bad, n))) => {
                ctx.count_n("fields-compared", n);
                if let Some(b) = bad.first() {
                    let sig = b.split(':').next().unwrap_or("?").to_string();
                    ctx.violation(&format!("decode:{}", sig), witness(bad.join("; ")));
                }
                ctx.nontrivial(hash_bytes(&bytes));
                // M6b: every other way of consuming the tag iterator (and clones of it)
                // sees the same tags
                if let Out::Val(Ok(h)) = catch(|| unsafe { Multiboot2Header::load(reg.ptr().cast::<Multiboot2BasicHeader>()) }) {
                    let key = |t: &multiboot2_common::DynSizedStructure<multiboot2_header::HeaderTagHeader>| (t as *const _ as *const u8 as usize, core::mem::size_of_val(t));
                    crate::iterproto::check(ctx, "header-tags", &|| h.iter(), &key, 4096, true);
                    crate::iterproto::check_clone(ctx, "header-tags", &|| h.iter(), &key, 4096);
                }
            }
        }
        if ctx.want_sample() && tags.len() >= 4 {
            ctx.sample(witness("(sample)".into()));
        }
    }
}

impl Driver for C11 {
    fn ncases(&self, ctx: &Ctx) -> u64 {
        33 + 20
            + match ctx.tier {
                Tier::Quick => 60_000,
                Tier::Thorough => 2_000_000,
            }
    }
    fn run_case(&mut self, ctx: &mut Ctx, idx: u64) {
        if idx < 33 {
            // information-request lists of every length 0..=32
            let arch = *ctx.rng.pick(&gen::ARCHS);
            let mut h = HdrBuf::new(arch);
            let b = ctx.rng.bytes(4 * idx as usize);
            h.push(H_INFOREQ, (idx % 2) as u16, &b);
            h.push(H_END, 0, &[]);
            let (bytes, tags) = h.finish();
            return self.region(ctx, bytes, tags, "information-request-length");
        }
        if idx < 53 {
            // every kind alone / twice
            let k = idx - 33;
            let typ = 1 + (k % 10) as u16;
            let arch = *ctx.rng.pick(&gen::ARCHS);
            let mut h = HdrBuf::new(arch);
            let b = gen::hdr_body(&mut ctx.rng, typ);
            h.push(typ, 0, &b);
            if k >= 10 {
                let b2 = gen::hdr_body(&mut ctx.rng, typ);
                h.push(typ, 1, &b2);
            }
            h.push(H_END, 0, &[]);
            let (bytes, tags) = h.finish();
            return self.region(ctx, bytes, tags, "single-kind");
        }
        let (bytes, tags) = gen::conformant_hdr(&mut ctx.rng, if cfg!(miri) { 6 } else { 12 });
        self.region(ctx, bytes, tags, "random-conformant");
    }
}
