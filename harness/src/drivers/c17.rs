//! C17 — string tags round-trip text and apply the NUL / UTF-8 rules within
//! the tag size.

use super::Driver;
use crate::region::Region;
use crate::spec::{parse_str, MbiBuf, StrRes};
use crate::util::*;
use multiboot2::{BootInformation, BootInformationHeader, BootLoaderNameTag, CommandLineTag, ModuleTag, StringError, TagHeader};
use multiboot2_common::DynSizedStructure;

pub struct C17;

const ALPHA: [u8; 10] = [0x00, b'a', b' ', 0xC3, 0xA9, 0xE2, 0x82, 0xAC, 0x80, 0xFF];
const KINDS: [(u32, usize, &str); 3] = [(1, 8, "cmdline"), (2, 8, "loader"), (3, 16, "module")];

fn max_word(ctx: &Ctx) -> u32 {
    match ctx.tier {
        Tier::Quick => 4,
        Tier::Thorough => 6,
    }
}

fn nwords(l: u32) -> u64 {
    (0..=l).map(|k| 10u64.pow(k)).sum()
}

fn word(mut k: u64) -> Vec<u8> {
    let mut len = 0;
    while k >= 10u64.pow(len) {
        k -= 10u64.pow(len);
        len += 1;
    }
    let mut w = vec![];
    for _ in 0..len {
        w.push(ALPHA[(k % 10) as usize]);
        k /= 10;
    }
    w
}

#[derive(Debug, PartialEq, Eq)]
enum Got {
    Ok(Vec<u8>, i64),
    MissingNul,
    Utf8,
}

fn conv(r: Result<&str, StringError>, base: usize) -> Got {
    match r {
        Ok(s) => Got::Ok(s.as_bytes().to_vec(), s.as_ptr() as usize as i64 - base as i64),
        Err(StringError::MissingNul(_)) => Got::MissingNul,
        Err(StringError::Utf8(_)) => Got::Utf8,
    }
}

impl C17 {
    fn parse_one(&self, ctx: &mut Ctx, kind: usize, w: &[u8], size: usize, nul_fill: bool, embedded: bool) {
        let (typ, fixed, name) = KINDS[kind];
        // tag image: header, fixed extras, the word, then fill (padding and beyond)
        let fill = if nul_fill { 0u8 } else { 0xEE };
        let phys = round8(size.max(fixed + w.len()));
        let mut t = vec![fill; phys];
        put32(&mut t, 0, typ);
        put32(&mut t, 4, size as u32);
        if fixed == 16 {
            put32(&mut t, 8, 0x1000);
            put32(&mut t, 12, 0x2000);
        }
        t[fixed..fixed + w.len()].copy_from_slice(w);
        let content = &t[fixed..size];
        let exp = match parse_str(content) {
            StrRes::Ok(b) => Got::Ok(b.to_vec(), fixed as i64),
            StrRes::MissingNul => Got::MissingNul,
            StrRes::Utf8 => Got::Utf8,
        };
        ctx.eval();
        let desc = |got: String| {
            J::obj(vec![
                ("kind", J::s(name)),
                ("declared_size", J::u(size as u64)),
                ("embedded", J::B(embedded)),
                ("fill_after_word", J::s(if nul_fill { "NUL" } else { "0xEE" })),
                ("tag_bytes", J::hex(&t)),
                ("expected", J::s(format!("{:?}", exp))),
                ("got", J::s(got)),
            ])
        };
        let (got, tag_off);
        let _keep;
        let _keep2;
        if embedded {
            // the tag occupies round8(size) bytes; the next tag starts with a
            // NUL byte (type 0x100) resp. a non-NUL one
            let mut m = MbiBuf::new();
            m.push_raw(&t[..round8(size)]);
            m.push(if nul_fill { 0x100 } else { 0x4141_4141 }, &[0xEE; 4]);
            let bytes = m.finish();
            let reg = Region::new(ctx.placement, &bytes);
            let r = catch(|| {
                let bi = unsafe { BootInformation::load(reg.ptr().cast::<BootInformationHeader>()) }.expect("loads");
                let base = reg.addr() + 8;
                match kind {
                    0 => conv(bi.command_line_tag().expect("present").cmdline(), base),
                    1 => conv(bi.boot_loader_name_tag().expect("present").name(), base),
                    _ => conv(bi.module_tags().next().expect("present").cmdline(), base),
                }
            });
            got = r;
            tag_off = 8;
            _keep = reg;
            _keep2 = bytes;
        } else {
            let bytes = t[..round8(size)].to_vec();
            let reg = Region::new(ctx.placement, &bytes);
            let r = catch(|| {
                let g = DynSizedStructure::<TagHeader>::ref_from_slice(reg.as_slice()).expect("valid tag");
                let base = reg.addr();
                match kind {
                    0 => conv(g.cast::<CommandLineTag>().cmdline(), base),
                    1 => conv(g.cast::<BootLoaderNameTag>().name(), base),
                    _ => conv(g.cast::<ModuleTag>().cmdline(), base),
                }
            });
            got = r;
            tag_off = 0;
            _keep = reg;
            _keep2 = bytes;
        }
        let _ = tag_off;
        match got {
            Out::Panic(site) => {
                ctx.count("parse:panic");
                ctx.violation(&format!("parse-panics:{}@{}", name, site), desc("panic".into()));
            }
            Out::Val(g) => {
                ctx.count(match &g {
                    Got::Ok(..) => "parse:Ok",
                    Got::MissingNul => "parse:MissingNul",
                    Got::Utf8 => "parse:Utf8",
                });
                if g != exp {
                    let sig = match (&g, &exp) {
                        (Got::Ok(..), Got::MissingNul) => "text-from-beyond-declared-size",
                        (Got::Ok(..), Got::Ok(..)) => "wrong-text-or-address",
                        _ => "wrong-result",
                    };
                    ctx.violation(&format!("parse:{}:{}", name, sig), desc(format!("{:?}", g)));
                }
            }
        }
    }

    fn below_fixed(&self, ctx: &mut Ctx, kind: usize, w: &[u8], size: usize) {
        let (typ, fixed, name) = KINDS[kind];
        // the tag is followed by a tag whose bytes look like text + NUL
        let mut t = vec![0xEEu8; round8(size)];
        put32(&mut t, 0, typ);
        put32(&mut t, 4, size as u32);
        let mut m = MbiBuf::new();
        m.push_raw(&t);
        let mut nb = b"SECRET".to_vec();
        nb.extend_from_slice(w);
        nb.push(0);
        m.push(0x5345_4352, &nb);
        let bytes = m.finish();
        let reg = Region::new(ctx.placement, &bytes);
        ctx.eval();
        let r = catch(|| {
            let bi = unsafe { BootInformation::load(reg.ptr().cast::<BootInformationHeader>()) }.expect("loads");
            match kind {
                0 => bi.command_line_tag().map(|t| t.cmdline().map(|s| s.len()).map_err(|_| ())),
                1 => bi.boot_loader_name_tag().map(|t| t.name().map(|s| s.len()).map_err(|_| ())),
                _ => bi.module_tags().next().map(|t| t.cmdline().map(|s| s.len()).map_err(|_| ())),
            }
        });
        match r {
            Out::Panic(_) => ctx.count("below-fixed:rejected"),
            Out::Val(Some(Err(()))) => ctx.count("below-fixed:error"),
            Out::Val(None) => ctx.count("below-fixed:none"),
            Out::Val(Some(Ok(n))) => ctx.violation(
                &format!("parse:{}:text-from-beyond-declared-size(below-fixed)", name),
                J::obj(vec![("kind", J::s(name)), ("declared_size", J::u(size as u64)), ("fixed_part", J::u(fixed as u64)), ("returned_text_len", J::u(n as u64)), ("region", J::hex(&bytes))]),
            ),
        }
    }

    #[cfg(feature = "builder")]
    fn ctor(&self, ctx: &mut Ctx, s: &str) {
        let b = s.as_bytes();
        let has_nul = b.contains(&0);
        let ends_nul = b.last() == Some(&0);
        for kind in 0..3 {
            let (typ, fixed, name) = KINDS[kind];
            ctx.eval();
            let r = catch(|| -> (usize, Vec<u8>, Result<String, String>) {
                match kind {
                    0 => {
                        let t = CommandLineTag::new(s);
                        let n = core::mem::size_of_val(&*t);
                        let raw = unsafe { core::slice::from_raw_parts(&*t as *const _ as *const u8, n) };
                        let size = le32(raw, 4) as usize;
                        (size, raw[..size.min(n)].to_vec(), t.cmdline().map(|x| x.to_string()).map_err(|e| format!("{:?}", e)))
                    }
                    1 => {
                        let t = BootLoaderNameTag::new(s);
                        let n = core::mem::size_of_val(&*t);
                        let raw = unsafe { core::slice::from_raw_parts(&*t as *const _ as *const u8, n) };
                        let size = le32(raw, 4) as usize;
                        (size, raw[..size.min(n)].to_vec(), t.name().map(|x| x.to_string()).map_err(|e| format!("{:?}", e)))
                    }
                    _ => {
                        let t = ModuleTag::new(0x1000, 0x2000, s);
                        let n = core::mem::size_of_val(&*t);
                        let raw = unsafe { core::slice::from_raw_parts(&*t as *const _ as *const u8, n) };
                        let size = le32(raw, 4) as usize;
                        (size, raw[..size.min(n)].to_vec(), t.cmdline().map(|x| x.to_string()).map_err(|e| format!("{:?}", e)))
                    }
                }
            });
            let desc = |got: String| J::obj(vec![("constructor", J::s(name)), ("string_bytes", J::hex(b)), ("got", J::s(got))]);
            match r {
                Out::Panic(site) => ctx.violation(&format!("ctor-panics:{}@{}", name, site), desc("panic".into())),
                Out::Val((size, bytes, back)) => {
                    if !has_nul {
                        let mut want = b.to_vec();
                        want.push(0);
                        let ok = size == fixed + b.len() + 1 && bytes.len() == size && &bytes[fixed..] == &want[..] && back.as_deref() == Ok(s) && le32(&bytes, 0) == typ;
                        ctx.count("ctor:nul-free");
                        if !ok {
                            ctx.violation(&format!("ctor-roundtrip:{}", name), desc(format!("size {} bytes {} read-back {:?}", size, hex(&bytes), back)));
                        }
                    } else if ends_nul {
                        // stored as it is
                        let ok = size == fixed + b.len() && bytes.len() == size && &bytes[fixed..] == b;
                        ctx.count("ctor:ends-in-nul");
                        if !ok {
                            ctx.violation(&format!("ctor-ends-in-nul:{}", name), desc(format!("size {} bytes {}", size, hex(&bytes))));
                        }
                    } else {
                        // interior NUL, not ending in NUL: the text does not "already end in
                        // NUL", so it is stored as given plus one terminator
                        let mut want = b.to_vec();
                        want.push(0);
                        let ok = size == fixed + b.len() + 1 && bytes.len() == size && &bytes[fixed..] == &want[..];
                        ctx.count("ctor:interior-nul");
                        if !ok {
                            ctx.violation(&format!("ctor-interior-nul-unterminated:{}", name), desc(format!("size {} bytes {}", size, hex(&bytes))));
                        }
                    }
                }
            }
            ctx.nontrivial(mix2(hash_bytes(b), 0x100 + kind as u64));
        }
    }
    #[cfg(not(feature = "builder"))]
    fn ctor(&self, _ctx: &mut Ctx, _s: &str) {}
}

// incl. characters whose code point is a multiple of 256 (U+0100, U+4E00, U+1F600)
const CT_ALPHA: [&str; 9] = ["a", " ", "é", "€", "𐍈", "\0", "Ā", "一", "😀"];

impl Driver for C17 {
    fn ncases(&self, ctx: &Ctx) -> u64 {
        3 * nwords(max_word(ctx)) + 7381 + 200
    }

    fn run_case(&mut self, ctx: &mut Ctx, idx: u64) {
        let nw = nwords(max_word(ctx));
        if idx < 3 * nw {
            let kind = (idx / nw) as usize;
            let w = word(idx % nw);
            let fixed = KINDS[kind].1;
            for size in fixed..=fixed + w.len() + 2 {
                for nul_fill in [false, true] {
                    // embedded variants cost a load + walk: every 4th word (all under the quick lengths)
                    self.parse_one(ctx, kind, &w, size, nul_fill, false);
                    if w.len() <= 3 || (idx % 4 == 0) {
                        self.parse_one(ctx, kind, &w, size, nul_fill, true);
                    }
                }
            }
            // declared sizes below the fixed part: there is no string area inside the
            // declared size, so no text may come back (error or rejection only)
            if w.len() >= 2 {
                for size in 8..fixed {
                    self.below_fixed(ctx, kind, &w, size);
                }
            }
            ctx.nontrivial(mix2(hash_bytes(&w), kind as u64));
            if ctx.want_sample() && w.len() == 3 && idx % 97 == 0 {
                ctx.sample(J::obj(vec![("kind", J::s(KINDS[kind].2)), ("word", J::hex(&w)), ("declared_sizes", J::s(format!("{}..={}", fixed, fixed + w.len() + 2)))]));
            }
            return;
        }
        let k = idx - 3 * nw;
        if k < 7381 {
            // all strings of <= 4 chars over the 9-symbol alphabet: 1+9+81+729+6561
            let mut k = k;
            let mut len = 0;
            while k >= 9u64.pow(len) {
                k -= 9u64.pow(len);
                len += 1;
            }
            let mut s = String::new();
            for _ in 0..len {
                s.push_str(CT_ALPHA[(k % 9) as usize]);
                k /= 9;
            }
            self.ctor(ctx, &s);
        } else {
            // random long strings (<= 1 KiB), NUL-free
            let n = ctx.rng.below(1025) as usize;
            let t = crate::gen::rand_text(&mut ctx.rng, n);
            let s = String::from_utf8(t).unwrap();
            self.ctor(ctx, &s);
        }
    }
}
