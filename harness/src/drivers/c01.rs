//! C01 — boot-information parsing never reads outside the loaded structure.

use super::Driver;
use crate::exercise::{self, Ex, Opts, Tr};
use crate::gen;
use crate::region::Region;
use crate::spec::*;
use crate::util::*;
use multiboot2::{BootInformation, BootInformationHeader};

pub struct C01;
/// probe for the known finding KF-VBE-MEMORY-MODEL (runs the skipped call sites)
pub struct C01Vbe;

/// adversarial standalone tag of kind `typ`
pub fn hostile_tag(rng: &mut Rng, typ: u32) -> (Vec<u8>, String) {
    let mut body = gen::body(rng, typ);
    // make room so that counts slightly too large still fit sometimes
    if rng.chance(1, 3) {
        let extra = rng.below(24) as usize;
        body.extend_from_slice(&rng.bytes(extra));
    }
    let mut t = vec![];
    t.extend_from_slice(&typ.to_le_bytes());
    t.extend_from_slice(&((8 + body.len()) as u32).to_le_bytes());
    t.extend_from_slice(&body);
    let truth = t.len() as u32;
    let mut label = String::new();
    let fixed = mbi_kind(typ).map(|k| k.0).unwrap_or(8) as u32;
    for _ in 0..1 + rng.below(2) {
        match rng.below(5) {
            0 | 1 => {
                let fs = gen::size_fields(typ);
                if !fs.is_empty() {
                    let (fo, w, name) = *rng.pick(fs);
                    if fo + w <= t.len() {
                        let cur = rd(&t, fo, w) as u32;
                        let rem = (t.len() - fo - w) as u32;
                        let mut v = gen::boundary(rng, cur, 0, rem, truth);
                        if rng.chance(1, 2) {
                            v = rng.below(140) as u32;
                        }
                        if name == "vbe.memory_model" {
                            v = rng.below(256) as u32;
                        }
                        match w {
                            1 => t[fo] = v as u8,
                            2 => put16(&mut t, fo, v as u16),
                            _ => put32(&mut t, fo, v),
                        }
                        label.push_str(&format!("{}={} ", name, v));
                    }
                }
            }
            2 | 3 => {
                // declared size: around the fixed part and around the truth
                let v = match rng.below(6) {
                    0 => fixed.wrapping_sub(1 + rng.below(8) as u32),
                    1 => fixed + rng.below(9) as u32,
                    2 => truth.wrapping_sub(1 + rng.below(9) as u32),
                    3 => rng.below(9) as u32,
                    4 => truth.saturating_sub(8 * (1 + rng.below(3) as u32)),
                    _ => truth.saturating_sub(rng.below(truth as u64 + 1) as u32),
                };
                put32(&mut t, 4, v);
                label.push_str(&format!("size={} ", v));
            }
            _ => {}
        }
    }
    // the allocation is exactly the declared size rounded up (at least a header)
    let declared = le32(&t, 4) as usize;
    let n = round8(declared.clamp(8, 4096));
    t.resize(n.max(8), PAD);
    t.truncate(n.max(8));
    (t, label)
}

impl C01 {
    fn embedded(&self, ctx: &mut Ctx, idx: u64) {
        let (mut bytes, tags) = gen::conformant_mbi(&mut ctx.rng, if cfg!(miri) { 5 } else { 10 });
        let mut labels = vec![];
        match ctx.rng.below(16) {
            0 => labels.push("conformant".to_string()),
            1 | 2 => labels.push(gen::blind_mutate(&mut ctx.rng, &mut bytes)),
            3 => {
                let n = 8 * (1 + ctx.rng.below(32) as usize);
                bytes = ctx.rng.bytes(n);
                let ts = if ctx.rng.chance(3, 4) { n as u32 } else { ctx.rng.u32_edge() };
                put32(&mut bytes, 0, ts);
                labels.push("random-region".into());
            }
            _ => labels = gen::corrupt_mbi(&mut ctx.rng, &mut bytes, &tags),
        }
        let fix_end = ctx.rng.chance(7, 8);
        gen::ensure_backing(&mut ctx.rng, &mut bytes, 1 << 20, fix_end);
        let ts = le32(&bytes, 0) as usize;
        // the region the caller hands over is exactly max(total_size, 8) bytes
        let n = ts.max(8).min(bytes.len());
        let mem = &bytes[..n];
        ctx.case_desc = Some(J::obj(vec![("sub", J::s("embedded")), ("corruptions", J::s(labels.join(" "))), ("region", J::S(hex_trunc(mem, 400)))]));
        let left = mix(idx) % 16 == 5;
        let reg = if left { Region::new_left(ctx.placement, mem) } else { Region::new(ctx.placement, mem) };
        ctx.eval();
        let r = catch(|| unsafe { BootInformation::load(reg.ptr().cast::<BootInformationHeader>()) });
        match r {
            Out::Panic(site) => ctx.count(&format!("load:Panic@{}", site)),
            Out::Val(Err(e)) => ctx.count(&format!("load:Err({:?})", e)),
            Out::Val(Ok(bi)) => {
                ctx.count("load:Ok");
                let before = ctx.counters.iter().filter(|(k, _)| k.starts_with("accessors:")).map(|(_, v)| *v).sum::<u64>();
                let whole = !cfg!(miri) || mix(idx) % 8 == 0;
                let opts = Opts { debug: !cfg!(miri) || mix(idx) % 4 < 2, debug_whole: whole, strict_extent: false };
                let mut tr = Tr::new(false, false);
                let mut ex = Ex { reg: &reg, tr: &mut tr, opts: &opts };
                ex.mbi(ctx, &bi, mem);
                let after = ctx.counters.iter().filter(|(k, _)| k.starts_with("accessors:")).map(|(_, v)| *v).sum::<u64>();
                if after > before {
                    ctx.nontrivial(hash_bytes(mem));
                }
            }
        }
        if ctx.want_sample() && mix(idx) % 11 == 3 {
            let d = ctx.case_desc.clone().unwrap();
            ctx.sample(d);
        }
    }

    fn standalone(&self, ctx: &mut Ctx, idx: u64) {
        let typ = (idx % 22) as u32;
        let (t, label) = hostile_tag(&mut ctx.rng, typ);
        ctx.case_desc = Some(J::obj(vec![("sub", J::s("standalone-tag")), ("kind", J::u(typ as u64)), ("corruptions", J::s(label)), ("tag", J::S(hex_trunc(&t, 200)))]));
        let reg = Region::new_slack(ctx.placement, &t, sized_view_size(typ).unwrap_or(0));
        ctx.eval();
        let opts = Opts { debug: !cfg!(miri) || idx % 3 == 0, debug_whole: false, strict_extent: false };
        let mut tr = Tr::new(false, false);
        let before = ctx.counters.get("standalone:accessors").copied().unwrap_or(0);
        exercise::standalone(ctx, &reg, &mut tr, &opts, &t);
        if ctx.counters.get("standalone:accessors").copied().unwrap_or(0) > before {
            ctx.nontrivial(hash_bytes(&t));
        }
        if ctx.want_sample() && mix(idx) % 13 == 1 {
            let d = ctx.case_desc.clone().unwrap();
            ctx.sample(d);
        }
    }
}

impl Driver for C01 {
    fn ncases(&self, ctx: &Ctx) -> u64 {
        match ctx.tier {
            Tier::Quick => 2_000_000,
            Tier::Thorough => 100_000_000,
        }
    }
    fn run_case(&mut self, ctx: &mut Ctx, idx: u64) {
        let sel = mix(idx ^ 0xc01);
        if sel % 3 == 2 {
            self.standalone(ctx, sel >> 8);
        } else {
            self.embedded(ctx, idx);
        }
    }
}

impl Driver for C01Vbe {
    fn ncases(&self, _ctx: &Ctx) -> u64 {
        6
    }
    fn run_case(&mut self, ctx: &mut Ctx, idx: u64) {
        use core::fmt::Write;
        let mut body = gen::vbe_body(&mut ctx.rng);
        let mm = [8u8, 9, 0x40, 0x80, 0xfe, 0xff][idx as usize];
        body[547] = mm;
        let mut m = MbiBuf::new();
        m.push(T_VBE, &body);
        let bytes = m.finish();
        let reg = Region::new(ctx.placement, &bytes);
        ctx.eval();
        ctx.case_desc = Some(J::obj(vec![("memory_model", J::u(mm as u64))]));
        let bi = unsafe { BootInformation::load(reg.ptr().cast::<BootInformationHeader>()) }.expect("loads");
        let t = bi.vbe_info_tag().expect("present");
        // the call sites the main workload skips
        let r = catch(|| {
            let mi = t.mode_info();
            let mut s = String::new();
            let _ = write!(s, "{:?}", mi);
            let _ = write!(s, "{:?}", t);
            let _ = write!(s, "{:?}", bi);
            touch(s.as_bytes());
            // a garbage variant name is the mildest symptom
            s.contains("memory_model: Text") || s.contains("CGAGraphics") || s.contains("HerculesGraphics") || s.contains("Planar") || s.contains("PackedPixel") || s.contains("Unchained") || s.contains("DirectColor") || s.contains("YUV")
        });
        match r {
            Out::Panic(site) => ctx.violation("vbe-probe:panic", J::s(format!("memory_model {} -> panic at {}", mm, site))),
            Out::Val(true) => ctx.violation("vbe-probe:unknown-value-printed-as-known-variant", J::u(mm as u64)),
            Out::Val(false) => {}
        }
        ctx.count("probe-survived");
        ctx.nontrivial(mm as u64);
        ctx.nontrivial(0x100 + mm as u64);
    }
}
