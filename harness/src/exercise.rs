//! The "program of safe calls" run on loaded structures (C01, C09) and the
//! canonical, address-free transcript of it (C08).
//!
//! Monitors applied to every call: M4 outcome classification (`catch`), M2
//! extent containment of every returned reference, M3 touch of every returned
//! byte, M5 bounded progress for iterators and Debug output.

use crate::gen;
use crate::region::Region;
use crate::spec::*;
use crate::util::*;
use core::fmt::Write as _;
use multiboot2::*;
use multiboot2_common::DynSizedStructure;

/// Transcript: hash always, lines on demand.
pub struct Tr {
    pub on: bool,
    pub keep: bool,
    pub h: u64,
    pub lines: Vec<String>,
    pub nlines: u64,
}

impl Tr {
    pub fn new(on: bool, keep: bool) -> Tr {
        Tr { on, keep, h: 0x7472, lines: vec![], nlines: 0 }
    }
    pub fn line(&mut self, s: &str) {
        self.h = mix2(self.h, hash_bytes(s.as_bytes()));
        self.nlines += 1;
        if self.keep {
            self.lines.push(s.to_string());
        }
    }
}

// NB: the arguments contain the API calls themselves, so they are always
// evaluated; `on` only decides whether lines are kept for printing.
macro_rules! tl {
    ($tr:expr, $($a:tt)*) => {{
        let s = format!($($a)*);
        $tr.line(&s);
    }};
}

/// M5: counting sink for Debug output
pub struct Sink {
    pub n: usize,
    pub cap: usize,
}
impl core::fmt::Write for Sink {
    fn write_str(&mut self, s: &str) -> core::fmt::Result {
        self.n += s.len();
        // really look at the bytes handed to us
        touch(s.as_bytes());
        if self.n > self.cap {
            Err(core::fmt::Error)
        } else {
            Ok(())
        }
    }
}

pub struct Opts {
    /// run Debug formatters (not part of the C08 transcript)
    pub debug: bool,
    /// run Debug of the whole boot information (expensive under Miri)
    pub debug_whole: bool,
    /// C15 ("the typed view's fields alias the tag's bytes"): handed-out views must
    /// end at the tag's declared size; elsewhere the padding up to the next
    /// multiple of 8 (which is part of the region) is tolerated
    pub strict_extent: bool,
}

/// extent of the tag a view was derived from
#[derive(Clone, Copy)]
pub struct TagExt {
    pub off: usize,
    pub size: usize,
}

pub struct Ex<'a> {
    pub reg: &'a Region,
    pub tr: &'a mut Tr,
    pub opts: &'a Opts,
}

fn res<T>(o: &Out<T>) -> &'static str {
    match o {
        Out::Val(_) => "Val",
        Out::Panic(_) => "Panic",
    }
}

impl<'a> Ex<'a> {
    /// M2 + M3 for a returned view of `len` bytes at `addr`, derived from `tag`.
    fn view(&mut self, ctx: &mut Ctx, what: &str, addr: usize, len: usize, tag: Option<TagExt>) {
        let off = self.reg.off_of(addr);
        tl!(self.tr, "  {} view@{}+{}", what, off, len);
        let in_region = len == 0 && off >= 0 && off as usize <= self.reg.len() || self.reg.contains(addr, len);
        if !in_region {
            ctx.violation(
                &format!("view-outside-region:{}", what),
                J::obj(vec![("what", J::s(format!("{}: [{}, {}) leaves the {}-byte region", what, off, off + len as i64, self.reg.len())))]),
            );
            return;
        }
        if let Some(t) = tag {
            let lo = t.off as i64;
            let hi = (t.off + if self.opts.strict_extent { t.size } else { round8(t.size) }) as i64;
            if !(off >= lo && off + len as i64 <= hi) {
                ctx.violation(
                    &format!("view-outside-its-tag:{}", what),
                    J::obj(vec![("what", J::s(format!("{}: [{}, {}) is not inside its tag [{}, {}) (declared size {})", what, off, off + len as i64, lo, hi, t.size)))]),
                );
                return;
            }
        }
        // M3: load every byte
        touch(unsafe { core::slice::from_raw_parts(addr as *const u8, len) });
        ctx.count("views-checked");
    }

    fn dbg<T: core::fmt::Debug + ?Sized>(&mut self, ctx: &mut Ctx, what: &str, v: &T) {
        if !self.opts.debug {
            return;
        }
        let cap = 4096 * self.reg.len().max(64);
        for pretty in [false, true] {
            let mut s = Sink { n: 0, cap };
            let r = catch(|| if pretty { write!(s, "{:#?}", v) } else { write!(s, "{:?}", v) });
            ctx.count(&format!("debug:{}:{}", what, res(&r)));
            if s.n > cap {
                ctx.violation(&format!("debug-output-unbounded:{}", what), J::s(format!("{} bytes written for a {}-byte region", s.n, self.reg.len())));
            }
        }
    }

    fn str_res(&mut self, ctx: &mut Ctx, what: &str, r: Out<Result<&str, StringError>>, tag: TagExt) {
        match r {
            Out::Val(Ok(s)) => {
                tl!(self.tr, "  {} Ok({})", what, hex(s.as_bytes()));
                self.view(ctx, what, s.as_ptr() as usize, s.len(), Some(tag));
            }
            Out::Val(Err(StringError::MissingNul(_))) => tl!(self.tr, "  {} Err(MissingNul)", what),
            Out::Val(Err(StringError::Utf8(_))) => tl!(self.tr, "  {} Err(Utf8)", what),
            Out::Panic(_) => tl!(self.tr, "  {} Panic", what),
        }
    }

    // ------------------------------------------------------------ kinds ----

    pub fn cmdline(&mut self, ctx: &mut Ctx, t: &CommandLineTag, e: TagExt) {
        let r = catch(|| t.cmdline());
        self.str_res(ctx, "cmdline.cmdline", r, e);
        self.dbg(ctx, "CommandLineTag", t);
    }
    pub fn loader(&mut self, ctx: &mut Ctx, t: &BootLoaderNameTag, e: TagExt) {
        let r = catch(|| t.name());
        self.str_res(ctx, "loader.name", r, e);
        tl!(self.tr, "  loader.typ {:?} size {}", catch(|| u32::from(t.typ())), t.size());
        self.dbg(ctx, "BootLoaderNameTag", t);
    }
    pub fn module(&mut self, ctx: &mut Ctx, t: &ModuleTag, e: TagExt) {
        let (s, en) = (t.start_address(), t.end_address());
        tl!(self.tr, "  module.start {} end {}", s, en);
        let ms = catch(|| t.module_size());
        if en >= s {
            tl!(self.tr, "  module.size {:?}", ms);
        }
        let r = catch(|| t.cmdline());
        self.str_res(ctx, "module.cmdline", r, e);
        self.dbg(ctx, "ModuleTag", t);
    }
    pub fn meminfo(&mut self, ctx: &mut Ctx, t: &BasicMemoryInfoTag, _e: TagExt) {
        tl!(self.tr, "  meminfo {} {}", t.memory_lower(), t.memory_upper());
        self.dbg(ctx, "BasicMemoryInfoTag", t);
    }
    pub fn bootdev(&mut self, ctx: &mut Ctx, t: &BootdevTag, _e: TagExt) {
        tl!(self.tr, "  bootdev {} {} {}", t.biosdev(), t.slice(), t.part());
        self.dbg(ctx, "BootdevTag", t);
    }
    pub fn mmap(&mut self, ctx: &mut Ctx, t: &MemoryMapTag, e: TagExt) {
        tl!(self.tr, "  mmap.entry_size {} version {}", t.entry_size(), t.entry_version());
        match catch(|| t.memory_areas()) {
            Out::Val(a) => {
                tl!(self.tr, "  mmap.areas n={}", a.len());
                self.view(ctx, "mmap.memory_areas", a.as_ptr() as usize, core::mem::size_of_val(a), Some(e));
                for x in a {
                    let end = catch(|| x.end_address());
                    tl!(self.tr, "   area {} {} {}", x.start_address(), x.size(), u32::from(x.typ()));
                    if x.start_address().checked_add(x.size()).is_some() {
                        tl!(self.tr, "   area.end {:?}", end);
                    }
                }
            }
            Out::Panic(_) => tl!(self.tr, "  mmap.areas Panic"),
        }
        self.dbg(ctx, "MemoryMapTag", t);
    }
    pub fn vbe(&mut self, ctx: &mut Ctx, t: &VBEInfoTag, e: TagExt, mem: &[u8]) {
        tl!(self.tr, "  vbe {} {} {} {}", t.mode(), t.interface_segment(), t.interface_offset(), t.interface_length());
        let ci = t.control_info();
        tl!(self.tr, "  vbe.control {}", hex(unsafe { core::slice::from_raw_parts(&ci as *const _ as *const u8, 512) }));
        // known finding KF-VBE-MEMORY-MODEL: a memory_model byte > 7 makes
        // mode_info()/Debug undefined behaviour; those call sites are skipped
        // on exactly those inputs (a dedicated probe reports them)
        let mm = mem[e.off + 555];
        if mm <= 7 {
            let mi = t.mode_info();
            tl!(self.tr, "  vbe.mode {}", hex(unsafe { core::slice::from_raw_parts(&mi as *const _ as *const u8, 256) }));
            self.dbg(ctx, "VBEInfoTag", t);
        } else {
            ctx.count("skipped:vbe-memory-model>7");
            tl!(self.tr, "  vbe.mode (skipped: memory_model {})", mm);
        }
    }
    pub fn fb(&mut self, ctx: &mut Ctx, t: &FramebufferTag, e: TagExt) {
        tl!(self.tr, "  fb {} {} {} {} {}", t.address(), t.pitch(), t.width(), t.height(), t.bpp());
        match catch(|| t.buffer_type()) {
            Out::Val(Ok(FramebufferType::Indexed { palette })) => {
                tl!(self.tr, "  fb.type Indexed n={}", palette.len());
                self.view(ctx, "fb.palette", palette.as_ptr() as usize, core::mem::size_of_val(palette), Some(e));
            }
            Out::Val(Ok(FramebufferType::RGB { red, green, blue })) => {
                tl!(self.tr, "  fb.type RGB {:?} {:?} {:?}", (red.position, red.size), (green.position, green.size), (blue.position, blue.size));
            }
            Out::Val(Ok(FramebufferType::Text)) => tl!(self.tr, "  fb.type Text"),
            Out::Val(Err(err)) => tl!(self.tr, "  fb.type Err({})", err),
            Out::Panic(_) => tl!(self.tr, "  fb.type Panic"),
        }
        self.dbg(ctx, "FramebufferTag", t);
    }
    pub fn elf_iter(&mut self, ctx: &mut Ctx, what: &str, it: Out<ElfSectionIter>, e: TagExt, mem: &[u8]) {
        let mut it = match it {
            Out::Val(i) => i,
            Out::Panic(_) => {
                tl!(self.tr, "  {} Panic", what);
                return;
            }
        };
        let tagb = &mem[e.off..(e.off + round8(e.size)).min(mem.len())];
        if tagb.len() < 20 {
            // a tag that cannot even hold the three count words: nothing the harness
            // could say about the entries (the engines watch the reads)
            ctx.count("elf:iterator-from-tag-below-fixed-part");
            return;
        }
        let (n, es, sh) = (le32(tagb, 8) as u64, le32(tagb, 12) as u64, le32(tagb, 16) as u64);
        let seclen = e.size.saturating_sub(20) as u64;
        let strtab_inside = sh * es + es <= seclen && (es == 40 || es == 64);
        let strtab_addr_ok = strtab_inside && !gen::fake_names() && {
            let o = 20 + (sh * es) as usize;
            let a = if es == 40 { le32(tagb, o + 12) as u64 } else { le64(tagb, o + 16) };
            a == gen::names().addr as u64
        };
        let bound = (e.size / 40 + 2) as u64;
        let mut k = 0u64;
        self.dbg(ctx, "ElfSectionIter", &it);
        loop {
            if k > bound {
                ctx.violation("elf-iteration-exceeds-bound", J::s(format!("{} items from a {}-byte tag", k, e.size)));
                return;
            }
            match catch(|| it.next()) {
                Out::Panic(_) => {
                    tl!(self.tr, "  {} next Panic", what);
                    return;
                }
                Out::Val(None) => {
                    tl!(self.tr, "  {} end after {}", what, k);
                    return;
                }
                Out::Val(Some(s)) => {
                    if self.opts.strict_extent && n.saturating_mul(es) > seclen {
                        // C15: the entries the typed view exposes are not all part of the tag's bytes
                        ctx.violation(
                            "view-outside-its-tag:elf.section-entries",
                            J::s(format!("a section was yielded although {} entries of {} bytes do not fit the {} section bytes of a tag of declared size {}", n, es, seclen, e.size)),
                        );
                        return;
                    }
                    let r = catch(|| (s.section_type_raw(), s.flags().bits(), s.start_address(), s.size(), s.addralign(), s.is_allocated(), s.section_type() as u32));
                    tl!(self.tr, "   section {:?}", r);
                    let _ = catch(|| s.end_address());
                    // names live at an external address: only resolvable when the
                    // designated entry points at the harness buffer; an entry outside
                    // the tag must be rejected
                    let name_idx_ok = match &r {
                        Out::Val(_) => {
                            // entry offset unknown here: the name index is the first word of the k-th in-use entry;
                            // only call name() when every entry's name index is a known offset
                            (0..n.min(4096)).all(|i| {
                                let o = 20 + (i * es) as usize;
                                o + 4 <= tagb.len() && gen::names().names.iter().any(|x| x.0 == le32(tagb, o))
                            })
                        }
                        _ => false,
                    };
                    if (strtab_addr_ok && name_idx_ok) || !strtab_inside {
                        let nm = catch(|| s.name().map(|x| x.len()).map_err(|_| ()));
                        tl!(self.tr, "   name {:?}", nm);
                        ctx.count("elf:name-called");
                    }
                    self.dbg(ctx, "ElfSection", &s);
                    k += 1;
                }
            }
        }
    }
    pub fn elf(&mut self, ctx: &mut Ctx, t: &ElfSectionsTag, e: TagExt, mem: &[u8]) {
        tl!(self.tr, "  elf {} {} {}", t.number_of_sections(), t.entry_size(), t.shndx());
        let it = catch(|| t.sections());
        self.elf_iter(ctx, "elf.sections", it, e, mem);
        // Debug of the tag iterates, too; only when the string table rule allows names... Debug does not resolve names
        self.dbg(ctx, "ElfSectionsTag", t);
    }
    pub fn apm(&mut self, ctx: &mut Ctx, t: &ApmTag, _e: TagExt) {
        tl!(self.tr, "  apm {} {} {} {} {} {} {} {} {}", t.version(), t.cseg(), t.offset(), t.cset_16(), t.dseg(), t.flags(), t.cseg_len(), t.cseg_16_len(), t.dseg_len());
        self.dbg(ctx, "ApmTag", t);
    }
    pub fn smbios(&mut self, ctx: &mut Ctx, t: &SmbiosTag, e: TagExt) {
        let tb = t.tables();
        tl!(self.tr, "  smbios {} {} n={}", t.major(), t.minor(), tb.len());
        self.view(ctx, "smbios.tables", tb.as_ptr() as usize, tb.len(), Some(e));
        self.dbg(ctx, "SmbiosTag", t);
    }
    pub fn rsdp1(&mut self, ctx: &mut Ctx, t: &RsdpV1Tag, e: TagExt) {
        let sig = catch(|| t.signature().map(|s| (s.as_ptr() as usize, s.len())).map_err(|_| ()));
        if let Out::Val(Ok((p, l))) = sig {
            self.view(ctx, "rsdp1.signature", p, l, Some(e));
        }
        let oem = catch(|| t.oem_id().map(|s| (s.as_ptr() as usize, s.len())).map_err(|_| ()));
        if let Out::Val(Ok((p, l))) = oem {
            self.view(ctx, "rsdp1.oem_id", p, l, Some(e));
        }
        tl!(self.tr, "  rsdp1 sig {} oem {} valid {:?} rev {} rsdt {}", res(&sig), res(&oem), catch(|| t.checksum_is_valid()), t.revision(), t.rsdt_address());
        self.dbg(ctx, "RsdpV1Tag", t);
    }
    pub fn rsdp2(&mut self, ctx: &mut Ctx, t: &RsdpV2Tag, e: TagExt) {
        let sig = catch(|| t.signature().map(|s| (s.as_ptr() as usize, s.len())).map_err(|_| ()));
        if let Out::Val(Ok((p, l))) = sig {
            self.view(ctx, "rsdp2.signature", p, l, Some(e));
        }
        let oem = catch(|| t.oem_id().map(|s| (s.as_ptr() as usize, s.len())).map_err(|_| ()));
        if let Out::Val(Ok((p, l))) = oem {
            self.view(ctx, "rsdp2.oem_id", p, l, Some(e));
        }
        tl!(self.tr, "  rsdp2 valid {:?} rev {} xsdt {} ext {}", catch(|| t.checksum_is_valid()), t.revision(), t.xsdt_address(), t.ext_checksum());
        self.dbg(ctx, "RsdpV2Tag", t);
    }
    pub fn network(&mut self, ctx: &mut Ctx, t: &NetworkTag, _e: TagExt) {
        self.dbg(ctx, "NetworkTag", t);
    }
    pub fn efi_mmap(&mut self, ctx: &mut Ctx, t: &EFIMemoryMapTag, e: TagExt) {
        match catch(|| t.memory_areas()) {
            Out::Panic(_) => tl!(self.tr, "  efi_mmap.areas Panic"),
            Out::Val(mut it) => {
                tl!(self.tr, "  efi_mmap.len {:?}", catch(|| it.len()));
                let bound = e.size / 8 + 2;
                let mut k = 0;
                loop {
                    if k > bound {
                        ctx.violation("efi-iteration-exceeds-bound", J::s(format!("{} items from a {}-byte tag", k, e.size)));
                        break;
                    }
                    match catch(|| it.next()) {
                        Out::Panic(_) => {
                            tl!(self.tr, "  efi_mmap.next Panic");
                            break;
                        }
                        Out::Val(None) => {
                            // the length report after the end is part of the protocol, too
                            tl!(self.tr, "  efi_mmap end after {} len {:?} hint {:?}", k, catch(|| it.len()), catch(|| it.size_hint()));
                            break;
                        }
                        Out::Val(Some(d)) => {
                            let a = d as *const _ as usize;
                            if a % 8 != 0 {
                                ctx.violation("efi-descriptor-misaligned", J::s(format!("descriptor at region offset {}", self.reg.off_of(a))));
                                break;
                            }
                            self.view(ctx, "efi_mmap.descriptor", a, 40, Some(e));
                            if self.reg.contains(a, 40) {
                                tl!(self.tr, "   desc {} {} {} {} {}", d.ty.0, d.phys_start, d.virt_start, d.page_count, d.att.bits());
                            }
                            k += 1;
                        }
                    }
                }
            }
        }
        self.dbg(ctx, "EFIMemoryMapTag", t);
    }

    // --------------------------------------------------- whole structure ----

    /// every typed getter + the kind's accessors
    pub fn getters(&mut self, ctx: &mut Ctx, bi: &BootInformation, mem: &[u8]) {
        let base = self.reg.addr();
        macro_rules! g {
            ($name:expr, $get:expr, |$t:ident, $e:ident| $body:expr) => {{
                match catch(|| $get) {
                    Out::Panic(_) => tl!(self.tr, " {} Panic", $name),
                    Out::Val(None) => tl!(self.tr, " {} None", $name),
                    Out::Val(Some($t)) => {
                        let a = $t as *const _ as *const u8 as usize;
                        let sov = core::mem::size_of_val($t);
                        let off = a.wrapping_sub(base);
                        tl!(self.tr, " {} Some@{}+{}", $name, off, sov);
                        // the view is the whole tag: it must be inside the region
                        if !self.reg.contains(a, sov) || off + 8 > mem.len() {
                            ctx.violation(&format!("tag-view-outside-region:{}", $name), J::s(format!("{} at {} with in-memory size {} in a {}-byte region", $name, off as i64, sov, self.reg.len())));
                        } else {
                            let size = le32(mem, off + 4) as usize;
                            if sov > round8(size) {
                                ctx.violation(&format!("tag-view-larger-than-tag:{}", $name), J::s(format!("in-memory size {} for a tag of declared size {}", sov, size)));
                            } else {
                                touch(unsafe { core::slice::from_raw_parts(a as *const u8, sov) });
                                let $e = TagExt { off, size };
                                ctx.count(concat!("accessors:", $name));
                                $body;
                            }
                        }
                    }
                }
            }};
        }
        g!("apm", bi.apm_tag(), |t, e| self.apm(ctx, t, e));
        g!("basic_memory_info", bi.basic_memory_info_tag(), |t, e| self.meminfo(ctx, t, e));
        g!("boot_loader_name", bi.boot_loader_name_tag(), |t, e| self.loader(ctx, t, e));
        g!("bootdev", bi.bootdev_tag(), |t, e| self.bootdev(ctx, t, e));
        g!("command_line", bi.command_line_tag(), |t, e| self.cmdline(ctx, t, e));
        g!("efi_bs_not_exited", bi.efi_bs_not_exited_tag(), |t, e| {
            let _ = e;
            self.dbg(ctx, "EFIBootServicesNotExitedTag", t)
        });
        g!("efi_memory_map", bi.efi_memory_map_tag(), |t, e| self.efi_mmap(ctx, t, e));
        g!("efi_sdt32", bi.efi_sdt32_tag(), |t, e| {
            let _ = e;
            tl!(self.tr, "  sdt32 {}", t.sdt_address());
            self.dbg(ctx, "EFISdt32Tag", t)
        });
        g!("efi_sdt64", bi.efi_sdt64_tag(), |t, e| {
            let _ = e;
            tl!(self.tr, "  sdt64 {}", t.sdt_address());
            self.dbg(ctx, "EFISdt64Tag", t)
        });
        g!("efi_ih32", bi.efi_ih32_tag(), |t, e| {
            let _ = e;
            tl!(self.tr, "  ih32 {}", t.image_handle());
            self.dbg(ctx, "EFIImageHandle32Tag", t)
        });
        g!("efi_ih64", bi.efi_ih64_tag(), |t, e| {
            let _ = e;
            tl!(self.tr, "  ih64 {}", t.image_handle());
            self.dbg(ctx, "EFIImageHandle64Tag", t)
        });
        g!("elf_sections", bi.elf_sections_tag(), |t, e| {
            self.elf(ctx, t, e, mem);
            let it = catch(|| bi.elf_sections().expect("tag present"));
            self.elf_iter(ctx, "elf_sections(deprecated)", it, e, mem);
        });
        // framebuffer: Option<Result<&Tag, Unknown>>
        match catch(|| bi.framebuffer_tag()) {
            Out::Panic(_) => tl!(self.tr, " framebuffer Panic"),
            Out::Val(None) => tl!(self.tr, " framebuffer None"),
            Out::Val(Some(Err(err))) => tl!(self.tr, " framebuffer Err({})", err),
            Out::Val(Some(Ok(t))) => {
                let a = t as *const _ as *const u8 as usize;
                let off = a.wrapping_sub(base);
                let sov = core::mem::size_of_val(t);
                tl!(self.tr, " framebuffer Some@{}+{}", off, sov);
                if !self.reg.contains(a, sov) {
                    ctx.violation("tag-view-outside-region:framebuffer", J::s(format!("at {} size {}", off as i64, sov)));
                } else {
                    let size = le32(mem, off + 4) as usize;
                    ctx.count("accessors:framebuffer");
                    self.fb(ctx, t, TagExt { off, size });
                }
            }
        }
        g!("load_base_addr", bi.load_base_addr_tag(), |t, e| {
            let _ = e;
            tl!(self.tr, "  load_base {}", t.load_base_addr());
            self.dbg(ctx, "ImageLoadPhysAddrTag", t)
        });
        g!("memory_map", bi.memory_map_tag(), |t, e| self.mmap(ctx, t, e));
        g!("network", bi.network_tag(), |t, e| self.network(ctx, t, e));
        g!("rsdp_v1", bi.rsdp_v1_tag(), |t, e| self.rsdp1(ctx, t, e));
        g!("rsdp_v2", bi.rsdp_v2_tag(), |t, e| self.rsdp2(ctx, t, e));
        g!("smbios", bi.smbios_tag(), |t, e| self.smbios(ctx, t, e));
        g!("vbe_info", bi.vbe_info_tag(), |t, e| self.vbe(ctx, t, e, mem));
    }

    pub fn walk_tags(&mut self, ctx: &mut Ctx, bi: &BootInformation) {
        let mut it = bi.tags();
        let bound = self.reg.len() / 8 + 1;
        let mut k = 0;
        self.dbg(ctx, "TagIter", &it);
        loop {
            if k > bound {
                ctx.violation("tag-iteration-exceeds-bound", J::s(format!("{} items from a {}-byte region", k, self.reg.len())));
                return;
            }
            match catch(|| it.next()) {
                Out::Panic(_) => {
                    tl!(self.tr, " walk Panic after {}", k);
                    // calling next() again after a caught panic is still a sequence of
                    // safe calls: whatever it returns, nothing outside the region may be
                    // read and a returned item must lie inside the region
                    for _ in 0..2 {
                        match catch(|| it.next()) {
                            Out::Val(Some(t)) => {
                                let a = t as *const _ as *const u8 as usize;
                                self.view(ctx, "walk.item-after-panic", a, core::mem::size_of_val(t), None);
                            }
                            _ => {}
                        }
                    }
                    ctx.count("walk:next-after-panic");
                    return;
                }
                Out::Val(None) => {
                    tl!(self.tr, " walk end after {}", k);
                    for _ in 0..3 {
                        if !matches!(catch(|| it.next()), Out::Val(None)) {
                            ctx.violation("tag-iterator-not-fused", J::Null);
                        }
                    }
                    // M6b: the provided Iterator methods agree with the next() sequence
                    crate::iterproto::check(ctx, "tags", &|| bi.tags(), &|t: &multiboot2_common::DynSizedStructure<multiboot2::TagHeader>| (t as *const _ as *const u8 as usize, core::mem::size_of_val(t)), 4096, true);
                    crate::iterproto::check_clone(ctx, "tags", &|| bi.tags(), &|t: &multiboot2_common::DynSizedStructure<multiboot2::TagHeader>| (t as *const _ as *const u8 as usize, core::mem::size_of_val(t)), 4096);
                    return;
                }
                Out::Val(Some(t)) => {
                    let a = t as *const _ as *const u8 as usize;
                    let sov = core::mem::size_of_val(t);
                    let h = t.header();
                    tl!(self.tr, " tag@{} typ {} size {} payload {}", self.reg.off_of(a), u32::from(h.typ), h.size, t.payload().len());
                    self.view(ctx, "walk.item", a, sov, None);
                    let p = t.payload();
                    self.view(ctx, "walk.payload", p.as_ptr() as usize, p.len(), Some(TagExt { off: a.wrapping_sub(self.reg.addr()), size: h.size as usize }));
                    self.dbg(ctx, "GenericTag", t);
                    k += 1;
                }
            }
        }
    }

    pub fn modules(&mut self, ctx: &mut Ctx, bi: &BootInformation, mem: &[u8]) {
        let mut it = bi.module_tags();
        self.dbg(ctx, "ModuleIter", &it);
        let bound = self.reg.len() / 8 + 1;
        let mut k = 0;
        loop {
            if k > bound {
                ctx.violation("module-iteration-exceeds-bound", J::Null);
                return;
            }
            match catch(|| it.next()) {
                Out::Panic(_) => {
                    tl!(self.tr, " modules Panic after {}", k);
                    return;
                }
                Out::Val(None) => {
                    tl!(self.tr, " modules end after {}", k);
                    return;
                }
                Out::Val(Some(m)) => {
                    let a = m as *const _ as *const u8 as usize;
                    let off = a.wrapping_sub(self.reg.addr());
                    tl!(self.tr, " module@{}", off);
                    if self.reg.contains(a, core::mem::size_of_val(m)) {
                        let size = le32(mem, off + 4) as usize;
                        self.module(ctx, m, TagExt { off, size });
                    } else {
                        ctx.violation("tag-view-outside-region:module", J::s(format!("at {}", off as i64)));
                        return;
                    }
                    k += 1;
                }
            }
        }
    }

    /// The whole program on a loaded boot information.
    pub fn mbi(&mut self, ctx: &mut Ctx, bi: &BootInformation, mem: &[u8]) {
        tl!(self.tr, " start+{} end+{} total {}", bi.start_address() - self.reg.addr(), bi.end_address() - self.reg.addr(), bi.total_size());
        self.walk_tags(ctx, bi);
        self.getters(ctx, bi, mem);
        self.modules(ctx, bi, mem);
        if self.opts.debug && self.opts.debug_whole {
            // Debug of the whole structure visits every getter; skip it when the
            // known VBE finding would be hit
            let vbe_bad = matches!(catch(|| bi.vbe_info_tag().map(|t| t as *const _ as *const u8 as usize - self.reg.addr())), Out::Val(Some(off)) if mem.get(off + 555).map_or(false, |m| *m > 7));
            if !vbe_bad {
                self.dbg(ctx, "BootInformation", bi);
            } else {
                ctx.count("skipped:vbe-memory-model>7");
            }
        }
    }
}

/// Kind-specific program on a standalone tag (exact allocation): "outside the
/// tag" = "outside the allocation" for the engines.
pub fn standalone(ctx: &mut Ctx, reg: &Region, tr: &mut Tr, opts: &Opts, mem: &[u8]) {
    let mut ex = Ex { reg, tr, opts };
    let g = match catch(|| DynSizedStructure::<TagHeader>::ref_from_slice(reg.as_slice())) {
        Out::Val(Ok(g)) => g,
        Out::Val(Err(e)) => {
            tl!(ex.tr, " ref_from_slice Err({:?})", e);
            return;
        }
        Out::Panic(_) => {
            tl!(ex.tr, " ref_from_slice Panic");
            return;
        }
    };
    let typ = le32(mem, 0);
    let e = TagExt { off: 0, size: le32(mem, 4) as usize };
    macro_rules! c {
        ($ty:ty, |$t:ident| $body:expr) => {{
            match catch(|| g.cast::<$ty>()) {
                Out::Panic(_) => tl!(ex.tr, " cast Panic"),
                Out::Val($t) => {
                    let sov = core::mem::size_of_val($t);
                    tl!(ex.tr, " cast Ok +{}", sov);
                    if sov > reg.len() {
                        ctx.violation("cast-view-larger-than-allocation", J::s(format!("kind {} size_of_val {} > {}", typ, sov, reg.len())));
                    } else {
                        ctx.count("standalone:accessors");
                        $body
                    }
                }
            }
        }};
    }
    match typ {
        T_CMDLINE => c!(CommandLineTag, |t| ex.cmdline(ctx, t, e)),
        T_LOADER => c!(BootLoaderNameTag, |t| ex.loader(ctx, t, e)),
        T_MODULE => c!(ModuleTag, |t| ex.module(ctx, t, e)),
        T_MEMINFO => c!(BasicMemoryInfoTag, |t| ex.meminfo(ctx, t, e)),
        T_BOOTDEV => c!(BootdevTag, |t| ex.bootdev(ctx, t, e)),
        T_MMAP => c!(MemoryMapTag, |t| ex.mmap(ctx, t, e)),
        T_VBE => c!(VBEInfoTag, |t| ex.vbe(ctx, t, e, mem)),
        T_FB => c!(FramebufferTag, |t| ex.fb(ctx, t, e)),
        T_ELF => c!(ElfSectionsTag, |t| ex.elf(ctx, t, e, mem)),
        T_APM => c!(ApmTag, |t| ex.apm(ctx, t, e)),
        T_SMBIOS => c!(SmbiosTag, |t| ex.smbios(ctx, t, e)),
        T_ACPI1 => c!(RsdpV1Tag, |t| ex.rsdp1(ctx, t, e)),
        T_ACPI2 => c!(RsdpV2Tag, |t| ex.rsdp2(ctx, t, e)),
        T_NET => c!(NetworkTag, |t| ex.network(ctx, t, e)),
        T_EFIMMAP => c!(EFIMemoryMapTag, |t| ex.efi_mmap(ctx, t, e)),
        T_EFI32 => c!(EFISdt32Tag, |t| tl!(ex.tr, "  sdt32 {}", t.sdt_address())),
        T_EFI64 => c!(EFISdt64Tag, |t| tl!(ex.tr, "  sdt64 {}", t.sdt_address())),
        T_EFI32IH => c!(EFIImageHandle32Tag, |t| tl!(ex.tr, "  ih32 {}", t.image_handle())),
        T_EFI64IH => c!(EFIImageHandle64Tag, |t| tl!(ex.tr, "  ih64 {}", t.image_handle())),
        T_LOADBASE => c!(ImageLoadPhysAddrTag, |t| tl!(ex.tr, "  load_base {}", t.load_base_addr())),
        T_EFIBS => c!(EFIBootServicesNotExitedTag, |t| ex.dbg(ctx, "EFIBootServicesNotExitedTag", t)),
        T_END => c!(EndTag, |t| ex.dbg(ctx, "EndTag", t)),
        _ => {
            let p = g.payload();
            ex.view(ctx, "generic.payload", p.as_ptr() as usize, p.len(), Some(e));
        }
    }
}
