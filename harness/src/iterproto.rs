//! M6b — iterator-protocol monitor.
//!
//! The library's iterators are used through the whole `Iterator` interface, not
//! only through `next()`: `count`, `last`, `nth`, `skip`, `step_by`, `fold`,
//! `collect` and `size_hint` are provided methods that an implementation may
//! override ("O(1) optimisation"). Whatever it does, they must agree with the
//! sequence that repeated `next()` calls produce. The reference sequence is taken
//! from the iterator itself (a fresh one per question, via `mk`), so this monitor
//! says nothing about *which* items are right — the property drivers decide that
//! with `next()` — only that every other way of consuming the iterator sees the
//! same items in the same order. If the reference walk itself panics (malformed
//! input) nothing is checked.

use crate::util::*;

fn same<K: PartialEq>(a: &Option<K>, b: Option<&K>) -> bool {
    match (a, b) {
        (None, None) => true,
        (Some(x), Some(y)) => x == y,
        _ => false,
    }
}

/// Returns false if a violation was reported. `hint`: also check `size_hint()`.
pub fn check<I, T, K>(ctx: &mut Ctx, what: &str, mk: &dyn Fn() -> I, key: &dyn Fn(T) -> K, cap: usize, hint: bool) -> bool
where
    I: Iterator<Item = T>,
    K: PartialEq + core::fmt::Debug,
{
    let reference = catch(|| {
        let mut v = vec![];
        let mut it = mk();
        while let Some(x) = it.next() {
            v.push(key(x));
            if v.len() > cap {
                break;
            }
        }
        v
    });
    let reference = match reference {
        Out::Val(v) if v.len() <= cap => v,
        _ => {
            ctx.count("iter-protocol:skipped");
            return true;
        }
    };
    let n = reference.len();
    let mut bad: Option<(String, String)> = None;
    let mut note = |method: String, msg: String| {
        if bad.is_none() {
            bad = Some((method, msg));
        }
    };
    // whole-iterator consumers
    match catch(|| mk().count()) {
        Out::Val(c) if c == n => {}
        o => note("count()".into(), format!("{:?}, expected {}", o, n)),
    }
    match catch(|| mk().fold(0usize, |a, _| a + 1)) {
        Out::Val(c) if c == n => {}
        o => note("fold()".into(), format!("{:?} items, expected {}", o, n)),
    }
    match catch(|| mk().last().map(|x| key(x))) {
        Out::Val(l) if same(&l, reference.last()) => {}
        o => note("last()".into(), format!("{:?}, expected {:?}", o, reference.last())),
    }
    match catch(|| mk().map(|x| key(x)).collect::<Vec<K>>()) {
        Out::Val(v) if v == reference => {}
        o => note("collect()".into(), format!("{:?}", o.val().map(|v| v.len()))),
    }
    // positional access: nth(k), then the cursor must stand behind item k
    let mut ks = vec![0usize, 1, 2, n / 2, n.saturating_sub(1), n, n + 1];
    ks.sort_unstable();
    ks.dedup();
    for &k in &ks {
        let r = catch(|| {
            let mut it = mk();
            let a = it.nth(k).map(|x| key(x));
            let b = it.next().map(|x| key(x));
            (a, b)
        });
        match r {
            Out::Val((a, b)) if same(&a, reference.get(k)) && same(&b, reference.get(k + 1)) => {}
            o => note(format!("nth({})", k), format!("nth then next() = {:?}, expected ({:?}, {:?})", o, reference.get(k), reference.get(k + 1))),
        }
        if k >= 1 {
            match catch(|| mk().skip(k).next().map(|x| key(x))) {
                Out::Val(a) if same(&a, reference.get(k)) => {}
                o => note(format!("skip({}).next()", k), format!("{:?}, expected {:?}", o, reference.get(k))),
            }
        }
    }
    for step in [2usize, 3] {
        match catch(|| mk().step_by(step).map(|x| key(x)).collect::<Vec<K>>()) {
            Out::Val(v) if v.len() == n.div_ceil(step) && v.iter().zip(reference.iter().step_by(step)).all(|(a, b)| a == b) => {}
            o => note(format!("step_by({})", step), format!("{:?} items", o.val().map(|v| v.len()))),
        }
    }
    // the same questions to a partially consumed iterator
    for j in [1usize, n / 2] {
        if j == 0 || j > n {
            continue;
        }
        let r = catch(|| {
            let mut it = mk();
            for _ in 0..j {
                it.next();
            }
            it.count()
        });
        match r {
            Out::Val(c) if c == n - j => {}
            o => note(format!("count() after {} next()", j), format!("{:?}, expected {}", o, n - j)),
        }
        let r = catch(|| {
            let mut it = mk();
            for _ in 0..j {
                it.next();
            }
            it.last().map(|x| key(x))
        });
        let exp = if j < n { reference.last() } else { None };
        match r {
            Out::Val(l) if same(&l, exp) => {}
            o => note(format!("last() after {} next()", j), format!("{:?}, expected {:?}", o, exp)),
        }
    }
    // size_hint brackets what is still to come (only where the property speaks about
    // the count: ElfSectionIter reports the number of raw entries, unused ones
    // included, and C19 does not say anything about that)
    let r = catch(|| {
        if !hint {
            return None;
        }
        let mut it = mk();
        for step in 0..=n.min(16) {
            let (lo, hi) = it.size_hint();
            let rest = n - step;
            if lo > rest || hi.map_or(false, |h| h < rest) {
                return Some((step, lo, hi, rest));
            }
            it.next();
        }
        None
    });
    match r {
        Out::Val(None) => {}
        o => note("size_hint()".into(), format!("(after k next(), lower, upper, items still to come) = {:?}", o)),
    }
    ctx.count("iter-protocol:checked");
    if let Some((method, msg)) = bad {
        ctx.violation(
            &format!("{}:iter-protocol:{}", what, method.split('(').next().unwrap_or("?")),
            J::obj(vec![
                ("what", J::s(format!("{} disagrees with the sequence of next() calls ({} items): {}", method, n, msg))),
                ("next_sequence_head", J::s(format!("{:?}", &reference[..n.min(4)]))),
            ]),
        );
        return false;
    }
    true
}

/// For iterators that are `Clone`: a clone taken after j `next()` calls continues with
/// exactly the items the original still has, and taking it does not disturb the original.
pub fn check_clone<I, T, K>(ctx: &mut Ctx, what: &str, mk: &dyn Fn() -> I, key: &dyn Fn(T) -> K, cap: usize) -> bool
where
    I: Iterator<Item = T> + Clone,
    K: PartialEq + core::fmt::Debug,
{
    let reference = catch(|| mk().take(cap + 1).map(|x| key(x)).collect::<Vec<K>>());
    let reference = match reference {
        Out::Val(v) if v.len() <= cap => v,
        _ => return true,
    };
    let n = reference.len();
    let mut js = vec![0usize, 1, n / 2, n];
    js.sort_unstable();
    js.dedup();
    for j in js {
        if j > n {
            continue;
        }
        let r = catch(|| {
            let mut it = mk();
            for _ in 0..j {
                it.next();
            }
            let c = it.clone();
            let from_clone: Vec<K> = c.map(|x| key(x)).collect();
            let from_orig: Vec<K> = it.map(|x| key(x)).collect();
            (from_clone, from_orig)
        });
        match r {
            Out::Val((a, b)) if a[..] == reference[j..] && b[..] == reference[j..] => {}
            o => {
                ctx.violation(
                    &format!("{}:iter-protocol:clone", what),
                    J::obj(vec![("what", J::s(format!(
                        "clone after {} next() of an iterator with {} items: (clone, original) yield {:?} items, expected {} each, in the same order",
                        j,
                        n,
                        o.val().map(|(a, b)| (a.len(), b.len())),
                        n - j
                    )))]),
                );
                return false;
            }
        }
    }
    ctx.count("iter-protocol:clone-checked");
    true
}
