//! C12 — building then loading a header preserves its tags and is
//! spec-well-formed.

use super::Driver;
use crate::spec::{checksum, HDR_MAGIC};
use crate::util::*;
use multiboot2_common::MaybeDynSized;
use multiboot2_header::*;

pub struct C12;

const NS: usize = 10;
const NAMES: [&str; NS] = [
    "information_request_tag", "address_tag", "entry_tag", "console_tag", "framebuffer_tag", "module_align_tag", "efi_bs_tag", "efi_32_tag", "efi_64_tag",
    "relocatable_tag",
];

fn image<T: ?Sized + MaybeDynSized<Header = HeaderTagHeader>>(t: &T) -> Vec<u8> {
    let size = MaybeDynSized::header(t).size() as usize;
    let n = size.min(core::mem::size_of_val(t));
    unsafe { core::slice::from_raw_parts(t as *const T as *const u8, n) }.to_vec()
}

fn flag(rng: &mut Rng) -> HeaderTagFlag {
    if rng.chance(1, 2) {
        HeaderTagFlag::Required
    } else {
        HeaderTagFlag::Optional
    }
}

fn call_slot(rng: &mut Rng, b: Builder, slot: usize, nreq: Option<usize>) -> (Builder, Vec<u8>) {
    match slot {
        0 => {
            let n = nreq.unwrap_or_else(|| rng.below(33) as usize);
            let reqs: Vec<MbiTagTypeId> = (0..n).map(|_| MbiTagTypeId::new(rng.u32())).collect();
            let t = InformationRequestHeaderTag::new(flag(rng), &reqs);
            let i = image(&*t);
            (b.information_request_tag(t), i)
        }
        1 => {
            let t = AddressHeaderTag::new(flag(rng), rng.u32(), rng.u32(), rng.u32(), rng.u32());
            let i = image(&t);
            (b.address_tag(t), i)
        }
        2 => {
            let t = EntryAddressHeaderTag::new(flag(rng), rng.u32());
            let i = image(&t);
            (b.entry_tag(t), i)
        }
        3 => {
            let t = ConsoleHeaderTag::new(flag(rng), if rng.chance(1, 2) { ConsoleHeaderTagFlags::ConsoleRequired } else { ConsoleHeaderTagFlags::EgaTextSupported });
            let i = image(&t);
            (b.console_tag(t), i)
        }
        4 => {
            let t = FramebufferHeaderTag::new(flag(rng), rng.u32(), rng.u32(), rng.u32());
            let i = image(&t);
            (b.framebuffer_tag(t), i)
        }
        5 => {
            let t = ModuleAlignHeaderTag::new(flag(rng));
            let i = image(&t);
            (b.module_align_tag(t), i)
        }
        6 => {
            let t = EfiBootServiceHeaderTag::new(flag(rng));
            let i = image(&t);
            (b.efi_bs_tag(t), i)
        }
        7 => {
            let t = EntryEfi32HeaderTag::new(flag(rng), rng.u32());
            let i = image(&t);
            (b.efi_32_tag(t), i)
        }
        8 => {
            let t = EntryEfi64HeaderTag::new(flag(rng), rng.u32());
            let i = image(&t);
            (b.efi_64_tag(t), i)
        }
        _ => {
            let p = match rng.below(3) {
                0 => RelocatableHeaderTagPreference::None,
                1 => RelocatableHeaderTagPreference::Low,
                _ => RelocatableHeaderTagPreference::High,
            };
            let t = RelocatableHeaderTag::new(flag(rng), rng.u32(), rng.u32(), rng.u32(), p);
            let i = image(&t);
            (b.relocatable_tag(t), i)
        }
    }
}

impl C12 {
    fn history(&self, ctx: &mut Ctx, arch_i: usize, calls: &[usize], nreq: Option<usize>, label: &str) {
        ctx.eval();
        let (arch, archv) = [(HeaderTagISA::I386, 0u32), (HeaderTagISA::MIPS32, 4)][arch_i];
        let desc = J::obj(vec![("arch", J::u(archv as u64)), ("calls", J::s(calls.iter().map(|&s| NAMES[s]).collect::<Vec<_>>().join(","))), ("workload", J::s(label))]);
        let mut model: Vec<Option<Vec<u8>>> = vec![None; NS];
        let built = catch(|| {
            let mut b = Builder::new(arch);
            for &s in calls {
                let (nb, img) = call_slot(&mut ctx.rng, b, s, nreq);
                b = nb;
                model[s] = Some(img);
            }
            b.build()
        });
        let hdr = match built {
            Out::Panic(site) => {
                ctx.violation(&format!("build-panics@{}", site), desc);
                return;
            }
            Out::Val(h) => h,
        };
        let viol = |ctx: &mut Ctx, sig: &str, msg: String| ctx.violation(sig, J::obj(vec![("what", J::s(msg)), ("history", desc.clone())]));
        let addr = &*hdr as *const _ as *const u8 as usize;
        let len = core::mem::size_of_val(&*hdr);
        if addr % 8 != 0 {
            viol(ctx, "not-8-aligned", format!("{:#x}", addr));
            return;
        }
        let h = match catch(|| unsafe { Multiboot2Header::load(addr as *const Multiboot2BasicHeader) }) {
            Out::Val(Ok(h)) => h,
            Out::Val(Err(e)) => {
                viol(ctx, &format!("built-header-does-not-load:{:?}", e), format!("{:?}", e));
                return;
            }
            Out::Panic(s) => {
                viol(ctx, &format!("load-panics@{}", s), "panic".into());
                return;
            }
        };
        let raw16 = unsafe { core::slice::from_raw_parts(addr as *const u8, 16) };
        if h.header_magic() != HDR_MAGIC || le32(raw16, 0) != HDR_MAGIC {
            viol(ctx, "magic", format!("{:#x}", h.header_magic()));
        }
        if h.arch() as u32 != archv || le32(raw16, 4) != archv {
            viol(ctx, "arch", format!("{:?}", h.arch()));
        }
        if h.length() as usize != len {
            viol(ctx, "length!=byte-length", format!("declares {}, occupies {}", h.length(), len));
            return;
        }
        if !h.verify_checksum() || h.checksum() != checksum(HDR_MAGIC, archv, len as u32) {
            viol(ctx, "checksum", format!("{:#x}", h.checksum()));
        }
        let walked = catch(|| {
            h.iter()
                .map(|t| {
                    let size = t.header().size() as usize;
                    unsafe { core::slice::from_raw_parts(t as *const _ as *const u8, size) }.to_vec()
                })
                .collect::<Vec<_>>()
        });
        let mut walked = match walked {
            Out::Val(w) => w,
            Out::Panic(s) => {
                viol(ctx, &format!("walk-of-built-header-panics@{}", s), "iter() panicked".into());
                return;
            }
        };
        // terminated by an end tag (type 0, flags 0, size 8) as the specification requires
        match walked.last() {
            Some(e) if e[..] == [0, 0, 0, 0, 8, 0, 0, 0] => {
                walked.pop();
            }
            o => {
                viol(ctx, "no-terminating-end-tag", format!("last tag of the built header: {:?}", o.map(|x| hex(x))));
                return;
            }
        }
        let mut expected: Vec<Vec<u8>> = model.iter().flatten().cloned().collect();
        let mut a = walked.clone();
        a.sort();
        expected.sort();
        if a != expected {
            let missing: Vec<u16> = expected.iter().filter(|x| !a.contains(x)).map(|v| le16(v, 0)).collect();
            let extra: Vec<u16> = a.iter().filter(|x| !expected.contains(x)).map(|v| le16(v, 0)).collect();
            let sig = if !missing.is_empty() && extra.is_empty() {
                format!("supplied-tag-dropped:type{}", missing[0])
            } else if !missing.is_empty() {
                format!("supplied-tag-altered:type{}", missing[0])
            } else {
                format!("tag-not-supplied-or-duplicated:type{}", extra.first().copied().unwrap_or(0))
            };
            viol(ctx, &sig, format!("missing types {:?}, unexpected types {:?}", missing, extra));
            return;
        }
        ctx.count("built+loaded+compared");
        ctx.count_n("tags-compared", walked.len() as u64);
        let mut hh = mix2(0xc12, arch_i as u64);
        for &s in calls {
            hh = mix2(hh, s as u64);
        }
        ctx.nontrivial(mix2(hh, nreq.unwrap_or(99) as u64));
        if ctx.want_sample() && calls.len() >= 3 {
            ctx.sample(J::obj(vec![("arch", J::u(archv as u64)), ("calls", J::s(calls.iter().map(|&s| NAMES[s]).collect::<Vec<_>>().join(","))), ("built_len", J::u(len as u64))]));
        }
    }
}

impl Driver for C12 {
    fn ncases(&self, ctx: &Ctx) -> u64 {
        2048 + 66
            + match ctx.tier {
                Tier::Quick => 20_000,
                Tier::Thorough => 400_000,
            }
    }
    fn run_case(&mut self, ctx: &mut Ctx, idx: u64) {
        if idx < 2048 {
            let arch = (idx & 1) as usize;
            let mask = idx >> 1;
            let mut calls: Vec<usize> = (0..NS).filter(|i| mask >> i & 1 == 1).collect();
            for i in (1..calls.len()).rev() {
                let j = ctx.rng.below(i as u64 + 1) as usize;
                calls.swap(i, j);
            }
            return self.history(ctx, arch, &calls, None, "subset(exhaustive)");
        }
        if idx < 2048 + 66 {
            let k = idx - 2048;
            return self.history(ctx, (k & 1) as usize, &[0], Some((k / 2) as usize), "request-list-length");
        }
        let n = ctx.rng.below(25) as usize;
        let calls: Vec<usize> = (0..n).map(|_| ctx.rng.below(NS as u64) as usize).collect();
        let arch = ctx.rng.below(2) as usize;
        self.history(ctx, arch, &calls, None, "random-history");
    }
}
