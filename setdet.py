#!/usr/bin/env python3
"""usage: setdet.py <seed name prefix> <detected_by string>... ; records which checks caught a stored seeded change"""
import sys, json, glob
d = glob.glob(f"/verif/seeded/{sys.argv[1]}*")[0]
m = json.load(open(d + "/meta.json")); m["detected_by"] = sys.argv[2:]
json.dump(m, open(d + "/meta.json", "w"), indent=1)
