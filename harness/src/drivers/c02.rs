//! C02 — loading accepts exactly the well-formed boot informations.

use super::Driver;
use crate::region::Region;
use crate::spec::{mbi_verdict, Verdict};
use crate::util::*;
use multiboot2::{BootInformation, BootInformationHeader, LoadError};
use multiboot2_common::MemoryError;

pub struct C02;

fn max_ts(ctx: &Ctx) -> u64 {
    match ctx.tier {
        Tier::Quick => 256,
        Tier::Thorough => 8192,
    }
}

/// sampled sizes up to 1 MiB: powers of two +- {0,1,7,8}
fn big_sizes() -> Vec<u32> {
    let mut v = vec![];
    for p in 9..=20u32 {
        for d in [-8i64, -7, -1, 0, 1, 7, 8] {
            v.push(((1i64 << p) + d) as u32);
        }
    }
    v
}

fn classify(r: &Result<BootInformation, LoadError>) -> Verdict {
    match r {
        Ok(_) => Verdict::Ok,
        Err(LoadError::NoEndTag) => Verdict::NoEndTag,
        Err(LoadError::Memory(MemoryError::ShorterThanHeader)) => Verdict::ShorterThanHeader,
        Err(LoadError::Memory(MemoryError::MissingPadding)) => Verdict::MissingPadding,
        // anything else is not in the specified precedence list
        Err(LoadError::Memory(_)) => Verdict::MagicNotFound,
    }
}

const LAST8: [&str; 11] = [
    "end-tag", "type!=0", "size=0", "size=7", "size=9", "size=16", "size=ffffffff", "random",
    "type=one-high-bit", "size=8+one-high-bit", "type=one-low-bit",
];

impl C02 {
    fn one(&self, ctx: &mut Ctx, ts: u32, reserved: u32, variant: usize) {
        let n = (ts as usize).max(8);
        // constant marker fill (memset: cheap under Miri even for 1 MiB)
        let mut mem = vec![0xA7u8 ^ (ctx.rng.u8() & 0x0f); n];
        // last 8 bytes of the declared region first, then the header on top
        // (for ts == 8 they are the same bytes: the header wins)
        if ts >= 8 {
            let o = ts as usize - 8;
            let (t, s) = match variant {
                0 => (0u32, 8u32),
                1 => (1 + ctx.rng.below(30) as u32, 8),
                2 => (0, 0),
                3 => (0, 7),
                4 => (0, 9),
                5 => (0, 16),
                6 => (0, 0xffff_ffff),
                // single-bit neighbours of a valid end tag
                8 => (1 << (16 + ctx.rng.below(16)), 8),
                9 => (0, 8 | (1 << (4 + ctx.rng.below(28)))),
                10 => (1 << ctx.rng.below(16), 8),
                _ => (ctx.rng.u32(), ctx.rng.u32()),
            };
            put32(&mut mem, o, t);
            put32(&mut mem, o + 4, s);
        }
        put32(&mut mem, 0, ts);
        put32(&mut mem, 4, reserved);
        let expect = mbi_verdict(&mem);
        let reg = Region::new(ctx.placement, &mem);
        let ptr = reg.ptr();
        ctx.eval();
        let out = catch(|| unsafe { BootInformation::load(ptr.cast::<BootInformationHeader>()) });
        let desc = || {
            J::obj(vec![
                ("total_size", J::u(ts as u64)),
                ("reserved", J::u(reserved as u64)),
                ("last8", J::s(LAST8[variant])),
                ("region_hex", J::S(hex_trunc(&mem, 96))),
                ("expected", J::s(format!("{:?}", expect))),
            ])
        };
        if ctx.want_sample() && ts >= 8 && variant == (ts as usize / 8) % LAST8.len() {
            ctx.sample(desc());
        }
        match out {
            Out::Panic(site) => {
                ctx.count(&format!("load:Panic@{}", site));
                ctx.violation(
                    &format!("load-panics@{}", site),
                    J::obj(vec![("what", J::s("load panicked")), ("input", desc())]),
                );
            }
            Out::Val(r) => {
                let got = classify(&r);
                ctx.count(&format!("load:{:?}", got));
                if got != expect {
                    ctx.violation(
                        &format!("verdict:{:?}!={:?}", got, expect),
                        J::obj(vec![
                            ("what", J::s("load verdict differs from the specified precedence")),
                            ("observed", J::s(format!("{:?}", r.as_ref().err()))),
                            ("input", desc()),
                        ]),
                    );
                }
                if let Ok(bi) = r {
                    let a = ptr as usize;
                    let ok = bi.start_address() == a
                        && bi.end_address() == a + ts as usize
                        && bi.total_size() == ts as usize
                        && bi.as_ptr() as usize == a;
                    ctx.count("accessors-checked");
                    if !ok {
                        ctx.violation(
                            "start/end/total_size",
                            J::obj(vec![
                                ("what", J::s("start/end/total_size/as_ptr disagree with ptr, ptr+ts, ts")),
                                ("start_off", J::I(bi.start_address() as i128 - a as i128)),
                                ("end_off", J::I(bi.end_address() as i128 - a as i128)),
                                ("total_size", J::u(bi.total_size() as u64)),
                                ("input", desc()),
                            ]),
                        );
                    }
                }
            }
        }
        ctx.nontrivial(mix2(mix2(ts as u64, reserved as u64), variant as u64));
    }
}

impl Driver for C02 {
    fn ncases(&self, ctx: &Ctx) -> u64 {
        1 + (max_ts(ctx) + 1) + big_sizes().len() as u64
    }

    fn run_case(&mut self, ctx: &mut Ctx, idx: u64) {
        if idx == 0 {
            ctx.eval();
            let out = catch(|| unsafe { BootInformation::load(core::ptr::null()) });
            match out {
                Out::Val(Err(LoadError::Memory(MemoryError::Null))) => ctx.count("load:Null"),
                Out::Val(r) => ctx.violation(
                    "null-pointer",
                    J::s(format!("null pointer gave {:?}", r.err())),
                ),
                Out::Panic(s) => ctx.violation("null-pointer-panic", J::s(s)),
            }
            return;
        }
        let m = max_ts(ctx) + 1;
        let ts = if idx - 1 < m {
            (idx - 1) as u32
        } else {
            big_sizes()[(idx - 1 - m) as usize]
        };
        let marker = ctx.rng.u32() | 1;
        for reserved in [0u32, marker] {
            for variant in 0..LAST8.len() {
                self.one(ctx, ts, reserved, variant);
            }
        }
    }
}
