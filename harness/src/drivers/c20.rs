//! C20 — type-identifier conversions are lossless and consistent for all 2^32
//! values; ELF / framebuffer classification is total; MAGIC constants.

use super::Driver;
use crate::region::Region;
use crate::spec::{elf_class, ElfClass, HDR_MAGIC, MBI_MAGIC};
use crate::util::*;
use multiboot2::{
    ElfSectionType, ElfSectionsTag, FramebufferTag, FramebufferType, MemoryAreaType, MemoryAreaTypeId, TagHeader, TagType,
    TagTypeId,
};
use multiboot2_common::DynSizedStructure;

pub struct C20;

fn named(x: u32) -> Option<TagType> {
    Some(match x {
        0 => TagType::End,
        1 => TagType::Cmdline,
        2 => TagType::BootLoaderName,
        3 => TagType::Module,
        4 => TagType::BasicMeminfo,
        5 => TagType::Bootdev,
        6 => TagType::Mmap,
        7 => TagType::Vbe,
        8 => TagType::Framebuffer,
        9 => TagType::ElfSections,
        10 => TagType::Apm,
        11 => TagType::Efi32,
        12 => TagType::Efi64,
        13 => TagType::Smbios,
        14 => TagType::AcpiV1,
        15 => TagType::AcpiV2,
        16 => TagType::Network,
        17 => TagType::EfiMmap,
        18 => TagType::EfiBs,
        19 => TagType::Efi32Ih,
        20 => TagType::Efi64Ih,
        21 => TagType::LoadBaseAddr,
        _ => return None,
    })
}

fn named_area(x: u32) -> Option<MemoryAreaType> {
    Some(match x {
        1 => MemoryAreaType::Available,
        2 => MemoryAreaType::Reserved,
        3 => MemoryAreaType::AcpiAvailable,
        4 => MemoryAreaType::ReservedHibernate,
        5 => MemoryAreaType::Defective,
        _ => return None,
    })
}

fn lib_class(t: ElfSectionType) -> ElfClass {
    match t {
        ElfSectionType::Unused => ElfClass::Unused,
        ElfSectionType::ProgramSection => ElfClass::Program,
        ElfSectionType::LinkerSymbolTable => ElfClass::SymTab,
        ElfSectionType::StringTable => ElfClass::StrTab,
        ElfSectionType::RelaRelocation => ElfClass::Rela,
        ElfSectionType::SymbolHashTable => ElfClass::Hash,
        ElfSectionType::DynamicLinkingTable => ElfClass::Dynamic,
        ElfSectionType::Note => ElfClass::Note,
        ElfSectionType::Uninitialized => ElfClass::NoBits,
        ElfSectionType::RelRelocation => ElfClass::Rel,
        ElfSectionType::Reserved => ElfClass::Reserved,
        ElfSectionType::DynamicLoaderSymbolTable => ElfClass::DynSym,
        ElfSectionType::EnvironmentSpecific => ElfClass::EnvSpecific,
        ElfSectionType::ProcessorSpecific => ElfClass::ProcSpecific,
    }
}

/// all conversion laws for one value; returns the name of the first broken law
#[inline(always)]
fn laws(x: u32, y: u32) -> Option<&'static str> {
    let t = TagType::from(x);
    let id = TagTypeId::from(x);
    if u32::from(t) != x {
        return Some("u32::from(TagType::from(x)) != x");
    }
    if t.val() != x {
        return Some("TagType::val");
    }
    match named(x) {
        Some(n) => {
            if t != n {
                return Some("named variant");
            }
        }
        None => {
            if t != TagType::Custom(x) {
                return Some("custom variant");
            }
        }
    }
    if u32::from(id) != x {
        return Some("u32::from(TagTypeId::from(x)) != x");
    }
    if TagType::from(id) != t {
        return Some("TagType::from(TagTypeId) != TagType::from(u32)");
    }
    if TagTypeId::from(t) != id {
        return Some("TagTypeId::from(TagType) != TagTypeId::from(u32)");
    }
    if TagTypeId::new(x) != id {
        return Some("TagTypeId::new != from");
    }
    for &y in &[x, x ^ 1, y] {
        let e = x == y;
        let ty = TagType::from(y);
        let idy = TagTypeId::from(y);
        if (id == y) != e || (y == id) != e {
            return Some("TagTypeId == u32");
        }
        if (t == y) != e || (y == t) != e {
            return Some("TagType == u32");
        }
        if (t == idy) != e || (idy == t) != e {
            return Some("TagType == TagTypeId");
        }
        if (id == ty) != e || (ty == id) != e {
            return Some("TagTypeId == TagType");
        }
        if (id == idy) != e || (t == ty) != e {
            return Some("same-type ==");
        }
    }
    // the custom variant built directly (also for numbers that have a named
    // variant): its number is x, and equality is numeric
    let cu = TagType::Custom(x);
    if u32::from(cu) != x || cu.val() != x || TagTypeId::from(cu) != id {
        return Some("TagType::Custom(x) -> number");
    }
    if (cu == id) != true || (id == cu) != true || (cu == x) != true || (x == cu) != true || (cu == (x ^ 1)) != false {
        return Some("TagType::Custom(x) == id / u32");
    }
    // memory area types
    let aid = MemoryAreaTypeId::from(x);
    let at = MemoryAreaType::from(aid);
    if u32::from(aid) != x {
        return Some("u32::from(MemoryAreaTypeId::from(x)) != x");
    }
    match named_area(x) {
        Some(n) => {
            if at != n {
                return Some("named area variant");
            }
        }
        None => {
            if at != MemoryAreaType::Custom(x) {
                return Some("custom area variant");
            }
        }
    }
    if MemoryAreaTypeId::from(at) != aid {
        return Some("MemoryAreaTypeId::from(MemoryAreaType::from(id)) != id");
    }
    let acu = MemoryAreaType::Custom(x);
    if MemoryAreaTypeId::from(acu) != aid || u32::from(MemoryAreaTypeId::from(acu)) != x {
        return Some("MemoryAreaType::Custom(x) -> number");
    }
    if (aid == acu) != true || (acu == aid) != true || (MemoryAreaTypeId::from(x ^ 1) == acu) != false || (acu == MemoryAreaTypeId::from(x ^ 1)) != false {
        return Some("MemoryAreaTypeId == MemoryAreaType::Custom(x)");
    }
    for &y in &[x, x ^ 1, y] {
        let e = x == y;
        let aty = MemoryAreaType::from(MemoryAreaTypeId::from(y));
        if (aid == aty) != e || (aty == aid) != e || (at == aty) != e || (aid == MemoryAreaTypeId::from(y)) != e {
            return Some("MemoryAreaTypeId == MemoryAreaType");
        }
    }
    None
}

struct ElfProbe {
    reg: Region,
    entsize: usize,
}

impl ElfProbe {
    fn new(ctx: &mut Ctx, entsize: usize) -> Self {
        // one-entry ELF-sections tag: header(8) num(4) entsize(4) shndx(4) + entry
        let size = 20 + entsize;
        let mut b = ctx.rng.bytes(round8(size));
        put32(&mut b, 0, 9);
        put32(&mut b, 4, size as u32);
        put32(&mut b, 8, 1);
        put32(&mut b, 12, entsize as u32);
        put32(&mut b, 16, 0);
        ElfProbe { reg: Region::new(ctx.placement, &b), entsize }
    }
    /// rewrites the raw type word, takes a fresh view and iterates
    #[inline(always)]
    fn classify(&mut self, x: u32) -> Result<(), &'static str> {
        unsafe { core::ptr::write_volatile(self.reg.ptr_mut().add(24).cast::<u32>(), x.to_le()) };
        let sl = self.reg.as_slice();
        let tag = DynSizedStructure::<TagHeader>::ref_from_slice(sl).map_err(|_| "ref_from_slice")?.cast::<ElfSectionsTag>();
        let mut it = tag.sections();
        let exp = elf_class(x);
        match it.next() {
            None => {
                if exp != ElfClass::Unused {
                    return Err("in-use section type not yielded");
                }
            }
            Some(s) => {
                if exp == ElfClass::Unused {
                    return Err("unused/unknown section type yielded");
                }
                // "matches the documented values": the symbolic type's number is the raw
                // value for the twelve specified types and the start of the range for the
                // two reserved ranges (ELF: SHT_LOOS, SHT_LOPROC)
                let num = s.section_type() as u32;
                let want = if x <= 11 { x } else if x < 0x7000_0000 { 0x6000_0000 } else { 0x7000_0000 };
                if lib_class(s.section_type()) == exp && num != want {
                    return Err("numeric value of the symbolic section type != documented value");
                }
                if lib_class(s.section_type()) != exp {
                    return Err("section_type() != documented class");
                }
                if s.section_type_raw() != x {
                    return Err("section_type_raw() != stored");
                }
            }
        }
        if it.next().is_some() {
            return Err("second item from a one-entry tag");
        }
        Ok(())
    }
}

fn blocks(ctx: &Ctx) -> Vec<u32> {
    match ctx.tier {
        Tier::Thorough => (0..=0xffffu32).collect(),
        Tier::Quick => {
            let mut v: Vec<u32> = (0..16).collect();
            for b in [0x5fff, 0x6000, 0x6fff, 0x7000, 0x7fff, 0x8000, 0xfffe, 0xffff] {
                v.push(b);
            }
            // 2^24 random values = 256 random blocks, seed-chosen
            let mut r = Rng::new(mix2(ctx.seed, 0xc20));
            while v.len() < 24 + 256 {
                let b = r.below(0x10000) as u32;
                if !v.contains(&b) {
                    v.push(b);
                }
            }
            v
        }
    }
}

impl Driver for C20 {
    fn ncases(&self, ctx: &Ctx) -> u64 {
        blocks(ctx).len() as u64 + 1
    }

    fn run_case(&mut self, ctx: &mut Ctx, idx: u64) {
        let bl = blocks(ctx);
        if idx as usize == bl.len() {
            self.small(ctx);
            return;
        }
        let b = bl[idx as usize];
        let (lo, n) = if cfg!(miri) {
            // sample inside the block: its first and last values
            ((b as u64) << 16, 48u64)
        } else {
            ((b as u64) << 16, 1u64 << 16)
        };
        let mut p32 = ElfProbe::new(ctx, 40);
        let mut p64 = ElfProbe::new(ctx, 64);
        let mut yr = Rng::new(mix2(ctx.seed, b as u64));
        let mut failed = false;
        let vals: Box<dyn Iterator<Item = u64>> = if cfg!(miri) {
            Box::new((lo..lo + n / 2).chain(lo + 0x10000 - n / 2..lo + 0x10000))
        } else {
            Box::new(lo..lo + n)
        };
        let mut cnt = 0u64;
        let vals: Vec<u64> = vals.collect();
        // a panic anywhere in a conversion is a violation of totality: the block
        // runs under one classifier; on a panic the value is located individually
        let whole = catch(|| {
            let mut yr2 = yr.clone();
            for &x in &vals {
                let _ = laws(x as u32, yr2.u32());
            }
        });
        if let Out::Panic(site) = whole {
            let mut yr2 = yr.clone();
            for &x in &vals {
                let y = yr2.u32();
                if catch(|| laws(x as u32, y)).is_panic() {
                    ctx.violation(&format!("law:panic@{}", site), J::obj(vec![("x", J::u(x)), ("what", J::s("a type-identifier conversion/equality panicked"))]));
                    break;
                }
            }
            ctx.evals(vals.len() as u64);
            return;
        }
        for x in vals {
            let x = x as u32;
            cnt += 1;
            if let Some(law) = laws(x, yr.u32()) {
                ctx.violation(&format!("law:{}", law), J::obj(vec![("x", J::u(x as u64)), ("law", J::s(law))]));
                failed = true;
                break;
            }
            let r = match catch(|| if x & 1 == 0 { p32.classify(x) } else { p64.classify(x) }) {
                Out::Val(r) => r,
                Out::Panic(_) => Err("classification panicked"),
            };
            // around the range boundaries both layouts see every value
            let r2 = if x & 0xfff == 0xfff || x & 0xfff == 0 || x < 64 {
                if x & 1 == 0 {
                    p64.classify(x)
                } else {
                    p32.classify(x)
                }
            } else {
                Ok(())
            };
            if let Err(e) = r.and(r2) {
                ctx.violation(&format!("elf-class:{}", e), J::obj(vec![("raw_type", J::u(x as u64)), ("what", J::s(e)), ("expected", J::s(format!("{:?}", elf_class(x))))]));
                failed = true;
                break;
            }
        }
        let _ = failed;
        ctx.evals(cnt);
        ctx.count_n("values", cnt);
        ctx.nontrivial(mix2(0xc20, b as u64));
        if ctx.want_sample() {
            ctx.sample(J::obj(vec![("block", J::s(format!("x in {:#x}..{:#x}", lo, lo + 0x10000))), ("values_checked", J::u(cnt))]));
        }
    }
}

impl C20 {
    /// framebuffer type bytes, MAGIC constants
    fn small(&mut self, ctx: &mut Ctx) {
        if multiboot2::MAGIC != MBI_MAGIC || MBI_MAGIC != 0x36d7_6289 {
            ctx.violation("magic:mbi", J::s(format!("{:#x}", multiboot2::MAGIC)));
        }
        if multiboot2_header::MAGIC != HDR_MAGIC || HDR_MAGIC != 0xe852_50d6 {
            ctx.violation("magic:header", J::s(format!("{:#x}", multiboot2_header::MAGIC)));
        }
        ctx.evals(2);
        for b in 0..=255u8 {
            for shape in 0..3 {
                // colour info shaped like Indexed (2 colours) / RGB / Text
                let mut body = ctx.rng.bytes(24);
                body[21] = b;
                match shape {
                    0 => {
                        body.extend_from_slice(&2u16.to_le_bytes());
                        body.extend_from_slice(&ctx.rng.bytes(6));
                    }
                    1 => body.extend_from_slice(&ctx.rng.bytes(6)),
                    _ => {}
                }
                let size = 8 + body.len();
                let mut t = vec![];
                t.extend_from_slice(&8u32.to_le_bytes());
                t.extend_from_slice(&(size as u32).to_le_bytes());
                t.extend_from_slice(&body);
                t.resize(round8(size), 0xEE);
                let reg = Region::new(ctx.placement, &t);
                ctx.eval();
                let r = catch(|| {
                    let tag = DynSizedStructure::<TagHeader>::ref_from_slice(reg.as_slice()).unwrap().cast::<FramebufferTag>();
                    tag.buffer_type().map(|t| match t {
                        FramebufferType::Indexed { .. } => 0u8,
                        FramebufferType::RGB { .. } => 1,
                        FramebufferType::Text => 2,
                    })
                    .map_err(|e| format!("{}", e))
                });
                // a colour-info block too short for the type may be rejected by a panic
                let shape_ok = match b {
                    0 => shape == 0,
                    1 => shape <= 1,
                    _ => true,
                };
                let ok = match (&r, b) {
                    (Out::Val(Ok(k)), 0..=2) => *k == b,
                    (Out::Val(Err(msg)), 3..=255) => msg == &format!("Unknown framebuffer type {}", b),
                    (Out::Panic(_), 0..=1) => !shape_ok,
                    _ => false,
                };
                ctx.count(&format!("fbtype:{}", match &r { Out::Val(Ok(_)) => "known", Out::Val(Err(_)) => "unknown-error", Out::Panic(_) => "panic" }));
                if !ok {
                    ctx.violation(
                        &format!("fb-type-byte:{}", if b > 2 { "unknown-reported-as-known" } else { "known-misreported" }),
                        J::obj(vec![("type_byte", J::u(b as u64)), ("shape", J::u(shape)), ("observed", J::s(format!("{:?}", r))), ("tag", J::hex(&t))]),
                    );
                }
                ctx.nontrivial(mix2(0xfb, (b as u64) << 2 | shape));
            }
        }
    }
}
