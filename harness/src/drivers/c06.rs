//! C06 — building then loading a boot information preserves exactly the
//! supplied tags.

use super::Driver;
use crate::gen;
use crate::spec::{walk, WalkEnd};
use crate::util::*;
use multiboot2::*;
use multiboot2_common::{new_boxed, DynSizedStructure, MaybeDynSized};

pub struct C06;

pub const NSLOTS: usize = 22;
pub const SLOT_NAMES: [&str; NSLOTS] = [
    "cmdline", "bootloader", "add_module", "meminfo", "bootdev", "mmap", "vbe", "framebuffer", "elf_sections", "apm", "efi32", "efi64",
    "add_smbios", "rsdpv1", "rsdpv2", "network", "efi_mmap", "efi_bs", "efi32_ih", "efi64_ih", "image_load_addr", "add_custom_tag",
];
const REPEATABLE: [usize; 3] = [2, 12, 21];

/// bytes [0, size) of a tag, size taken from its header (never touches padding)
fn image<T: ?Sized + MaybeDynSized<Header = TagHeader>>(t: &T) -> Vec<u8> {
    let size = MaybeDynSized::header(t).size as usize;
    let n = size.min(core::mem::size_of_val(t));
    unsafe { core::slice::from_raw_parts(t as *const T as *const u8, n) }.to_vec()
}

/// Calls builder method `slot` with a freshly generated tag; returns the
/// supplied tag's image. `small` = fixed small contents (subset enumeration).
pub fn call_slot(rng: &mut Rng, b: Builder, slot: usize, small: bool) -> (Builder, Vec<u8>) {
    let slen = if small { 3 } else { rng.below(24) as usize };
    let text = {
        let t = gen::rand_text(rng, slen);
        String::from_utf8(t).unwrap()
    };
    match slot {
        0 => {
            let t = CommandLineTag::new(&text);
            let i = image(&*t);
            (b.cmdline(t), i)
        }
        1 => {
            let t = BootLoaderNameTag::new(&text);
            let i = image(&*t);
            (b.bootloader(t), i)
        }
        2 => {
            // few distinct start addresses, so that repeated modules often share one
            let s = if rng.chance(1, 2) { rng.below(3) as u32 * 0x1000 } else { rng.u32() >> 1 };
            // one call in four supplies one of two fixed modules, so that byte-identical
            // modules are supplied more than once (each must still be in the walk)
            let t = if rng.chance(1, 4) {
                if rng.chance(1, 2) { ModuleTag::new(0x1000, 0x2000, "m") } else { ModuleTag::new(0x1000, 0x2000, "") }
            } else {
                ModuleTag::new(s, s + 1 + (rng.u32() >> 2), &text)
            };
            let i = image(&*t);
            (b.add_module(t), i)
        }
        3 => {
            let t = BasicMemoryInfoTag::new(rng.u32(), rng.u32());
            let i = image(&t);
            (b.meminfo(t), i)
        }
        4 => {
            let t = BootdevTag::new(rng.u32(), rng.u32(), rng.u32());
            let i = image(&t);
            (b.bootdev(t), i)
        }
        5 => {
            let n = if small { 1 } else { rng.below(5) as usize };
            let areas: Vec<MemoryArea> = (0..n).map(|_| MemoryArea::new(rng.next(), rng.next(), rng.u32())).collect();
            let t = MemoryMapTag::new(&areas);
            let i = image(&*t);
            (b.mmap(t), i)
        }
        6 => {
            let mut ci = VBEControlInfo::default();
            ci.version = rng.u16();
            ci.total_memory = rng.u16();
            let mut mi = VBEModeInfo::default();
            mi.pitch = rng.u16();
            mi.bpp = rng.u8();
            let t = VBEInfoTag::new(rng.u16(), rng.u16(), rng.u16(), rng.u16(), ci, mi);
            let i = image(&t);
            (b.vbe(t), i)
        }
        7 => {
            let pal: Vec<FramebufferColor> = (0..if small { 1 } else { rng.below(6) as usize }).map(|_| FramebufferColor { red: rng.u8(), green: rng.u8(), blue: rng.u8() }).collect();
            let ty = match rng.below(3) {
                0 => FramebufferType::Indexed { palette: &pal },
                1 => FramebufferType::RGB {
                    red: FramebufferField { position: rng.u8(), size: rng.u8() },
                    green: FramebufferField { position: rng.u8(), size: rng.u8() },
                    blue: FramebufferField { position: rng.u8(), size: rng.u8() },
                },
                _ => FramebufferType::Text,
            };
            let t = FramebufferTag::new(rng.next(), rng.u32(), rng.u32(), rng.u32(), rng.u8(), ty);
            let i = image(&*t);
            (b.framebuffer(t), i)
        }
        8 => {
            let n = if small { 1 } else { rng.below(3) as usize };
            let body = gen::elf_body(rng, n, 64);
            let t = ElfSectionsTag::new(n as u32, 64, crate::util::le32(&body, 8), &body[12..]);
            let i = image(&*t);
            (b.elf_sections(t), i)
        }
        9 => {
            let t = ApmTag::new(rng.u16(), rng.u16(), rng.u32(), rng.u16(), rng.u16(), rng.u16(), rng.u16(), rng.u16(), rng.u16());
            let i = image(&t);
            (b.apm(t), i)
        }
        10 => {
            let t = EFISdt32Tag::new(rng.u32());
            let i = image(&t);
            (b.efi32(t), i)
        }
        11 => {
            let t = EFISdt64Tag::new(rng.next());
            let i = image(&t);
            (b.efi64(t), i)
        }
        12 => {
            let n = if small { 2 } else { rng.below(20) as usize };
            // few distinct version numbers, so that repeated tags often share them
            let t = if rng.chance(1, 4) { SmbiosTag::new(2, 1, &[7, 7]) } else { SmbiosTag::new(rng.below(3) as u8, rng.below(3) as u8, &rng.bytes(n)) };
            let i = image(&*t);
            (b.add_smbios(t), i)
        }
        13 => {
            let t = RsdpV1Tag::new(rng.u8(), *b"OEMIDX", rng.u8(), rng.u32());
            let i = image(&t);
            (b.rsdpv1(t), i)
        }
        14 => {
            let t = RsdpV2Tag::new(rng.u8(), *b"OEMIDY", rng.u8(), rng.u32(), 36, rng.next(), rng.u8());
            let i = image(&t);
            (b.rsdpv2(t), i)
        }
        15 => {
            let n = if small { 5 } else { rng.below(30) as usize };
            let t = NetworkTag::new(&rng.bytes(n));
            let i = image(&*t);
            (b.network(t), i)
        }
        16 => {
            let n = if small { 1 } else { rng.below(3) as usize };
            let t = EFIMemoryMapTag::new_from_map(48, 1, &rng.bytes(48 * n));
            let i = image(&*t);
            (b.efi_mmap(t), i)
        }
        17 => {
            let t = EFIBootServicesNotExitedTag::new();
            let i = image(&t);
            (b.efi_bs(t), i)
        }
        18 => {
            let t = EFIImageHandle32Tag::new(rng.u32());
            let i = image(&t);
            (b.efi32_ih(t), i)
        }
        19 => {
            let t = EFIImageHandle64Tag::new(rng.next());
            let i = image(&t);
            (b.efi64_ih(t), i)
        }
        20 => {
            let t = ImageLoadPhysAddrTag::new(rng.u32());
            let i = image(&t);
            (b.image_load_addr(t), i)
        }
        _ => {
            let n = if small { 3 } else { rng.below(20) as usize };
            // custom type ids: the first unspecified ones, the last one, random others
            let id = match rng.below(6) {
                0 => 22,
                1 => 23 + rng.below(3) as u32,
                2 => u32::MAX - rng.below(2) as u32,
                3 => 0x1000 + rng.below(16) as u32,
                _ => 22 + rng.below(u32::MAX as u64 - 22) as u32,
            };
            let t = if rng.chance(1, 4) {
                new_boxed::<DynSizedStructure<TagHeader>>(TagHeader::new(TagType::Custom(0x77), 0), &[&[1u8, 2, 3]])
            } else {
                new_boxed::<DynSizedStructure<TagHeader>>(TagHeader::new(TagType::Custom(id), 0), &[&rng.bytes(n)])
            };
            let i = image(&*t);
            (b.add_custom_tag(t), i)
        }
    }
}

impl C06 {
    fn history(&self, ctx: &mut Ctx, calls: &[usize], small: bool, label: &str) {
        ctx.eval();
        // M6 model: last-wins slots + append-only vectors, in call order
        let mut single: Vec<Option<Vec<u8>>> = vec![None; NSLOTS];
        let mut multi: Vec<Vec<Vec<u8>>> = vec![vec![]; NSLOTS];
        let desc = J::obj(vec![("calls", J::s(calls.iter().map(|&s| SLOT_NAMES[s]).collect::<Vec<_>>().join(","))), ("workload", J::s(label))]);
        let built = catch(|| {
            let mut b = if ctx.rng.chance(1, 4) { Builder::default() } else { Builder::new() };
            for &s in calls {
                let (nb, img) = call_slot(&mut ctx.rng, b, s, small);
                b = nb;
                if REPEATABLE.contains(&s) {
                    multi[s].push(img);
                } else {
                    single[s] = Some(img);
                }
            }
            b.build()
        });
        let mbi = match built {
            Out::Panic(site) => {
                ctx.violation(&format!("build-panics@{}", site), desc);
                return;
            }
            Out::Val(m) => m,
        };
        let viol = |ctx: &mut Ctx, sig: &str, msg: String| ctx.violation(sig, J::obj(vec![("what", J::s(msg)), ("history", desc.clone())]));
        let addr = &*mbi as *const _ as *const u8 as usize;
        let len = core::mem::size_of_val(&*mbi);
        if addr % 8 != 0 {
            viol(ctx, "not-8-aligned", format!("{:#x}", addr));
            return;
        }
        let bi = match catch(|| unsafe { BootInformation::load(addr as *const BootInformationHeader) }) {
            Out::Val(Ok(b)) => b,
            Out::Val(Err(e)) => {
                viol(ctx, &format!("built-structure-does-not-load:{:?}", e), format!("{:?}", e));
                return;
            }
            Out::Panic(s) => {
                viol(ctx, &format!("load-panics@{}", s), "panic".into());
                return;
            }
        };
        if bi.total_size() != len || mbi.header().total_size() as usize != len {
            viol(ctx, "total_size!=byte-length", format!("declares {} / {}, occupies {}", bi.total_size(), mbi.header().total_size(), len));
            return;
        }
        // walk through the library and collect each tag's bytes up to its size
        let walked = catch(|| {
            bi.tags()
                .map(|t| {
                    let size = t.header().size as usize;
                    let raw = unsafe { core::slice::from_raw_parts(t as *const _ as *const u8, size) };
                    raw.to_vec()
                })
                .collect::<Vec<_>>()
        });
        let mut walked = match walked {
            Out::Val(w) => w,
            Out::Panic(s) => {
                viol(ctx, &format!("walk-of-built-structure-panics@{}", s), "tags() panicked".into());
                return;
            }
        };
        // exactly one end tag, as the final 8 bytes
        match walked.pop() {
            Some(e) if e == [0, 0, 0, 0, 8, 0, 0, 0] => {}
            o => {
                viol(ctx, "no-final-end-tag", format!("last walked tag: {:?}", o.map(|x| hex(&x))));
                return;
            }
        }
        // model: expected multiset + per-kind order
        let mut expected: Vec<Vec<u8>> = vec![];
        for s in 0..NSLOTS {
            if let Some(i) = &single[s] {
                expected.push(i.clone());
            }
            for i in &multi[s] {
                expected.push(i.clone());
            }
        }
        let mut a = walked.clone();
        let mut e = expected.clone();
        a.sort();
        e.sort();
        if a != e {
            // name what is missing / extra by type
            let ty = |v: &Vec<u8>| le32(v, 0);
            let missing: Vec<u32> = e.iter().filter(|x| !a.contains(x)).map(ty).collect();
            let extra: Vec<u32> = a.iter().filter(|x| !e.contains(x)).map(ty).collect();
            let sig = if !missing.is_empty() && extra.is_empty() {
                format!("supplied-tag-dropped:type{}", missing[0])
            } else if missing.is_empty() && !extra.is_empty() {
                format!("tag-not-supplied-or-duplicated:type{}", extra[0])
            } else if missing.is_empty() {
                "tag-duplicated".to_string()
            } else {
                format!("supplied-tag-altered:type{}", missing[0])
            };
            viol(ctx, &sig, format!("walk has {} tags, model {}; missing types {:?}, unexpected types {:?}", a.len(), e.len(), missing, extra));
            return;
        }
        // repeatable kinds keep call order
        for &s in &REPEATABLE {
            let typ_of = |v: &Vec<u8>| le32(v, 0);
            if multi[s].is_empty() {
                continue;
            }
            let want: Vec<&Vec<u8>> = multi[s].iter().collect();
            let got: Vec<&Vec<u8>> = if s == 21 {
                walked.iter().filter(|v| typ_of(v) >= 22).collect()
            } else {
                walked.iter().filter(|v| typ_of(v) == typ_of(&multi[s][0])).collect()
            };
            if got != want {
                viol(ctx, &format!("reordered-within-kind:{}", SLOT_NAMES[s]), "repeatable tags not in call order".into());
                return;
            }
        }
        // the reference walk agrees on the extent (no gaps, 8-byte steps)
        let bytes_len = len;
        let hdr = unsafe { core::slice::from_raw_parts(addr as *const u8, 8) };
        let _ = (hdr, bytes_len, walk as fn(&[u8], usize, usize) -> (Vec<crate::spec::TagAt>, WalkEnd));
        ctx.count("built+loaded+compared");
        ctx.count_n("tags-compared", walked.len() as u64);
        let mut h = 0xc06u64;
        for &s in calls {
            h = mix2(h, s as u64);
        }
        ctx.nontrivial(h);
        if ctx.want_sample() && calls.len() >= 4 {
            ctx.sample(J::obj(vec![("calls", J::s(calls.iter().map(|&s| SLOT_NAMES[s]).collect::<Vec<_>>().join(","))), ("built_len", J::u(len as u64)), ("tags", J::u(walked.len() as u64))]));
        }
    }
}

fn subsets_quick() -> Vec<u32> {
    // all subsets of size <= 2 and >= 20
    let mut v = vec![];
    let n = NSLOTS as u32;
    v.push(0);
    for i in 0..n {
        v.push(1 << i);
        for j in i + 1..n {
            v.push(1 << i | 1 << j);
        }
    }
    let full = (1u32 << n) - 1;
    v.push(full);
    for i in 0..n {
        v.push(full & !(1 << i));
        for j in i + 1..n {
            v.push(full & !(1 << i) & !(1 << j));
        }
    }
    v
}

const BLOCK: u64 = 256;

impl Driver for C06 {
    fn ncases(&self, ctx: &Ctx) -> u64 {
        match ctx.tier {
            Tier::Quick => subsets_quick().len() as u64 + 50_000 + 20_000,
            Tier::Thorough => (1u64 << NSLOTS) / BLOCK + 400_000,
        }
    }
    fn run_case(&mut self, ctx: &mut Ctx, idx: u64) {
        let order = |ctx: &mut Ctx, mask: u32| -> Vec<usize> {
            let mut v: Vec<usize> = (0..NSLOTS).filter(|i| mask >> i & 1 == 1).collect();
            // random call order
            for i in (1..v.len()).rev() {
                let j = ctx.rng.below(i as u64 + 1) as usize;
                v.swap(i, j);
            }
            v
        };
        match ctx.tier {
            Tier::Quick => {
                let sq = subsets_quick();
                if (idx as usize) < sq.len() {
                    let c = order(ctx, sq[idx as usize]);
                    return self.history(ctx, &c, true, "subset(size<=2 or >=20)");
                }
                if idx < sq.len() as u64 + 50_000 {
                    let mask = ctx.rng.u32() & ((1 << NSLOTS) - 1);
                    let c = order(ctx, mask);
                    return self.history(ctx, &c, true, "random-subset");
                }
            }
            Tier::Thorough => {
                let nb = (1u64 << NSLOTS) / BLOCK;
                if idx < nb {
                    // under Miri only a few subsets of the block
                    let step = if cfg!(miri) { 64 } else { 1 };
                    let mut m = idx * BLOCK;
                    while m < (idx + 1) * BLOCK {
                        let c = order(ctx, m as u32);
                        self.history(ctx, &c, true, "subset(exhaustive)");
                        m += step;
                    }
                    return;
                }
            }
        }
        // random call sequences of length 0..=40 with repeats and random contents
        let n = ctx.rng.below(41) as usize;
        let calls: Vec<usize> = (0..n).map(|_| ctx.rng.below(NSLOTS as u64) as usize).collect();
        self.history(ctx, &calls, false, "random-history");
    }
}
