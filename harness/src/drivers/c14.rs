//! C14 — raw bytes become a structure only when aligned, padded and
//! size-consistent.

use super::Driver;
use crate::region::Region;
use crate::util::*;
use multiboot2::{BootInformationHeader, TagHeader};
use multiboot2_common::test_utils::DummyTestHeader;
use multiboot2_common::{increase_to_alignment, BytesRef, DynSizedStructure, Header, MemoryError};
use multiboot2_header::{HeaderTagHeader, Multiboot2BasicHeader};

pub struct C14;

/// Harness header kinds of 8/16/24 bytes with a truthful, total declaration.
macro_rules! my_header {
    ($name:ident, $n:expr, $words:expr) => {
        #[derive(Clone, Debug, PartialEq, Eq)]
        #[repr(C, align(8))]
        pub struct $name {
            size: u32,
            rest: [u32; $words],
        }
        impl Header for $name {
            fn payload_len(&self) -> usize {
                (self.size as usize).saturating_sub($n)
            }
            fn total_size(&self) -> usize {
                self.size as usize
            }
            fn set_size(&mut self, t: usize) {
                self.size = t as u32;
            }
        }
    };
}
my_header!(My8, 8, 1);
my_header!(My16, 16, 3);
my_header!(My24, 24, 5);

trait HK: Header {
    const NAME: &'static str;
    const N: usize;
    /// writes the declared size (and defined values for enumerated fields)
    fn prepare(b: &mut [u8], declared: u32, rng: &mut Rng);
}
impl HK for TagHeader {
    const NAME: &'static str = "TagHeader";
    const N: usize = 8;
    fn prepare(b: &mut [u8], d: u32, r: &mut Rng) {
        // the other word of the header must not matter: one time in three it is a
        // specified type id (0 = end tag, 3 = module, ...) instead of a marker
        if r.chance(1, 3) {
            put32(b, 0, *r.pick(&[0u32, 0, 1, 3, 8, 21]));
        }
        put32(b, 4, d);
    }
}
impl HK for BootInformationHeader {
    const NAME: &'static str = "BootInformationHeader";
    const N: usize = 8;
    fn prepare(b: &mut [u8], d: u32, _: &mut Rng) {
        put32(b, 0, d);
    }
}
impl HK for HeaderTagHeader {
    const NAME: &'static str = "HeaderTagHeader";
    const N: usize = 8;
    fn prepare(b: &mut [u8], d: u32, r: &mut Rng) {
        put16(b, 0, if r.chance(1, 3) { 0 } else { r.below(11) as u16 });
        put16(b, 2, r.below(2) as u16);
        put32(b, 4, d);
    }
}
impl HK for Multiboot2BasicHeader {
    const NAME: &'static str = "Multiboot2BasicHeader";
    const N: usize = 16;
    fn prepare(b: &mut [u8], d: u32, r: &mut Rng) {
        put32(b, 4, if r.chance(1, 2) { 0 } else { 4 });
        put32(b, 8, d);
    }
}
impl HK for DummyTestHeader {
    const NAME: &'static str = "DummyTestHeader";
    const N: usize = 8;
    fn prepare(b: &mut [u8], d: u32, _: &mut Rng) {
        put32(b, 4, d);
    }
}
impl HK for My8 {
    const NAME: &'static str = "My8";
    const N: usize = 8;
    fn prepare(b: &mut [u8], d: u32, _: &mut Rng) {
        put32(b, 0, d);
    }
}
impl HK for My16 {
    const NAME: &'static str = "My16";
    const N: usize = 16;
    fn prepare(b: &mut [u8], d: u32, _: &mut Rng) {
        put32(b, 0, d);
    }
}
impl HK for My24 {
    const NAME: &'static str = "My24";
    const N: usize = 24;
    fn prepare(b: &mut [u8], d: u32, _: &mut Rng) {
        put32(b, 0, d);
    }
}

const NKINDS: u64 = 8;
const MAXLEN: u64 = 72;

#[derive(Debug, PartialEq, Eq, Clone, Copy)]
enum Exp {
    Shorter,
    Align,
    Padding,
    Oversize,
    Ok,
}

fn precedence(n: usize, len: usize, mis: usize) -> Exp {
    if len < n {
        Exp::Shorter
    } else if mis != 0 {
        Exp::Align
    } else if len % 8 != 0 {
        Exp::Padding
    } else {
        Exp::Ok
    }
}

fn err_class(e: MemoryError) -> Exp {
    match e {
        MemoryError::ShorterThanHeader => Exp::Shorter,
        MemoryError::WrongAlignment => Exp::Align,
        MemoryError::MissingPadding => Exp::Padding,
        MemoryError::InvalidReportedTotalSize => Exp::Oversize,
        MemoryError::Null => Exp::Ok, // never expected
    }
}

fn grid<H: HK>(ctx: &mut Ctx, len: usize, mis: usize) {
    let n = H::N;
    let maxd = if len >= n { len + 16 } else { 0 };
    for declared in 0..=maxd as u32 {
        let mut bytes = ctx.rng.marker_bytes(len);
        if len >= n {
            H::prepare(&mut bytes, declared, &mut ctx.rng);
        }
        let reg = Region::with_misalign(ctx.placement, &bytes, mis, false);
        let sl = reg.as_slice();
        ctx.eval();
        let mut exp = precedence(n, len, mis);
        if exp == Exp::Ok && declared as usize > len {
            exp = Exp::Oversize;
        }
        let below_header = (declared as usize) < n;
        let desc = |got: String| {
            J::obj(vec![
                ("header", J::s(H::NAME)),
                ("slice_len", J::u(len as u64)),
                ("start_misalign", J::u(mis as u64)),
                ("declared", J::u(declared as u64)),
                ("expected", J::s(format!("{:?}", exp))),
                ("got", J::s(got)),
                ("bytes", J::S(hex_trunc(&bytes, 64))),
            ])
        };
        // BytesRef on the same grid point
        if declared == 0 {
            let r = catch(|| BytesRef::<H>::try_from(sl).map(|_| ()));
            let e0 = precedence(n, len, mis);
            match r {
                Out::Val(Ok(())) if e0 == Exp::Ok => ctx.count("BytesRef:Ok"),
                Out::Val(Err(e)) if err_class(e) == e0 => ctx.count(&format!("BytesRef:{:?}", e0)),
                o => ctx.violation(
                    &format!("BytesRef:{}:{:?}", H::NAME, e0),
                    desc(format!("BytesRef::try_from -> {:?}", o)),
                ),
            }
        }
        let r = catch(|| DynSizedStructure::<H>::ref_from_slice(sl));
        match r {
            Out::Panic(site) => {
                if below_header && precedence(n, len, mis) == Exp::Ok {
                    // acceptable: a declaration below the header size may be rejected by a panic
                    ctx.count(&format!("{}:below-header:Panic", H::NAME));
                } else {
                    ctx.violation(&format!("ref_from_slice-panics:{}@{}", H::NAME, site), desc("panic".into()));
                }
            }
            Out::Val(Err(e)) => {
                let c = err_class(e);
                if c == exp || (below_header && precedence(n, len, mis) == Exp::Ok) {
                    ctx.count(&format!("{}:{:?}", H::NAME, e));
                } else {
                    ctx.violation(&format!("wrong-error:{}:{:?}!={:?}", H::NAME, c, exp), desc(format!("{:?}", e)));
                }
            }
            Out::Val(Ok(s)) => {
                let sov = core::mem::size_of_val(s);
                let addr = s as *const _ as *const u8 as usize;
                if exp != Exp::Ok {
                    // M2: say how far the accepted view reaches
                    ctx.violation(
                        &format!("accepted:{}:{:?}", H::NAME, exp),
                        desc(format!("Ok: size_of_val {} payload {} over a {}-byte slice", sov, s.payload().len(), len)),
                    );
                    continue;
                }
                if below_header {
                    if s.payload().len() != 0 || sov > round8(n) {
                        ctx.violation(&format!("below-header-yields-more:{}", H::NAME), desc(format!("Ok with payload {}", s.payload().len())));
                    } else {
                        ctx.count(&format!("{}:below-header:header-only", H::NAME));
                    }
                    continue;
                }
                let d = declared as usize;
                let hdr_bytes = unsafe { core::slice::from_raw_parts(s.header() as *const H as *const u8, n) };
                let ok = addr == reg.addr()
                    && hdr_bytes == &sl[..n]
                    && s.payload().len() == d - n
                    && s.payload() == &sl[n..d]
                    && sov == round8(d)
                    && sov <= len;
                touch(s.payload());
                if ok {
                    ctx.count(&format!("{}:Ok", H::NAME));
                } else {
                    ctx.violation(
                        &format!("ok-view-wrong:{}", H::NAME),
                        desc(format!("addr_off {} payload_len {} size_of_val {}", reg.off_of(addr), s.payload().len(), sov)),
                    );
                }
            }
        }
        ctx.nontrivial(mix2(mix2(str_hash(H::NAME), (len * 8 + mis) as u64), declared as u64));
        if ctx.want_sample() && len == 24 && mis == 0 && declared % 11 == 5 {
            ctx.sample(desc("(sample)".into()));
        }
    }
}

fn rounding_blocks(ctx: &Ctx) -> u64 {
    match ctx.tier {
        Tier::Quick => 64,      // 64 blocks of 2^20: x < 2^26, plus boundary windows below
        Tier::Thorough => 4096, // all x < 2^32
    }
}

impl Driver for C14 {
    fn ncases(&self, ctx: &Ctx) -> u64 {
        NKINDS * (MAXLEN + 1) * 8 + rounding_blocks(ctx) + 1
    }
    fn run_case(&mut self, ctx: &mut Ctx, idx: u64) {
        let g = NKINDS * (MAXLEN + 1) * 8;
        if idx < g {
            let kind = idx / ((MAXLEN + 1) * 8);
            let r = idx % ((MAXLEN + 1) * 8);
            let len = (r / 8) as usize;
            let mis = (r % 8) as usize;
            match kind {
                0 => grid::<TagHeader>(ctx, len, mis),
                1 => grid::<BootInformationHeader>(ctx, len, mis),
                2 => grid::<HeaderTagHeader>(ctx, len, mis),
                3 => grid::<Multiboot2BasicHeader>(ctx, len, mis),
                4 => grid::<DummyTestHeader>(ctx, len, mis),
                5 => grid::<My8>(ctx, len, mis),
                6 => grid::<My16>(ctx, len, mis),
                _ => grid::<My24>(ctx, len, mis),
            }
            return;
        }
        let b = idx - g;
        let nb = rounding_blocks(ctx);
        let check = |ctx: &mut Ctx, x: u64| -> bool {
            let r = increase_to_alignment(x as usize) as u64;
            // least multiple of 8 that is >= x
            r % 8 == 0 && r >= x && r < x + 8
        };
        if b < nb {
            // under Miri a block is sampled, natively it is complete
            let (lo, hi, step) = if cfg!(miri) { (b << 20, (b << 20) + 4096, 1) } else { (b << 20, (b + 1) << 20, 1) };
            let mut x = lo;
            let mut bad = None;
            while x < hi {
                if !check(ctx, x) {
                    bad = Some(x);
                    break;
                }
                x += step;
            }
            ctx.evals(hi - lo);
            ctx.count_n("rounding:values", hi - lo);
            if let Some(x) = bad {
                ctx.violation("rounding", J::s(format!("increase_to_alignment({}) = {}", x, increase_to_alignment(x as usize))));
            }
            ctx.nontrivial(mix2(0x726f756e64, b));
        } else {
            // boundary windows (quick tier's reach beyond 2^26)
            let mut n = 0;
            for p in 3..=32u32 {
                let c = 1u64 << p;
                for x in c.saturating_sub(64)..(c + 64).min(1 << 32) {
                    n += 1;
                    if !check(ctx, x) {
                        ctx.violation("rounding", J::s(format!("increase_to_alignment({}) = {}", x, increase_to_alignment(x as usize))));
                        break;
                    }
                }
            }
            ctx.evals(n);
            ctx.count_n("rounding:values", n);
        }
    }
}
