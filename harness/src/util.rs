//! Shared plumbing: PRNG, hashing, JSON, outcome classification, case context.

use std::cell::RefCell;
use std::collections::{BTreeMap, HashSet};
use std::fmt::Write as _;
use std::panic::{self, AssertUnwindSafe};
use std::sync::atomic::{AtomicU64, Ordering};

// ---------------------------------------------------------------- PRNG ----

/// splitmix64 – used for seeding and hashing.
pub fn mix(mut z: u64) -> u64 {
    z = z.wrapping_add(0x9e37_79b9_7f4a_7c15);
    z = (z ^ (z >> 30)).wrapping_mul(0xbf58_476d_1ce4_e5b9);
    z = (z ^ (z >> 27)).wrapping_mul(0x94d0_49bb_1331_11eb);
    z ^ (z >> 31)
}

pub fn mix2(a: u64, b: u64) -> u64 {
    mix(mix(a) ^ b.rotate_left(17))
}

pub fn str_hash(s: &str) -> u64 {
    hash_bytes(s.as_bytes())
}

pub fn hash_bytes(b: &[u8]) -> u64 {
    let mut h: u64 = 0xcbf2_9ce4_8422_2325;
    for &x in b {
        h ^= x as u64;
        h = h.wrapping_mul(0x0000_0100_0000_01b3);
    }
    mix(h ^ (b.len() as u64))
}

/// xoshiro256**
#[derive(Clone)]
pub struct Rng {
    s: [u64; 4],
}

impl Rng {
    pub fn new(seed: u64) -> Self {
        let mut s = [0u64; 4];
        let mut z = seed;
        for x in &mut s {
            z = mix(z);
            *x = z;
        }
        if s == [0; 4] {
            s[0] = 1;
        }
        Self { s }
    }
    pub fn next(&mut self) -> u64 {
        let r = self.s[1].wrapping_mul(5).rotate_left(7).wrapping_mul(9);
        let t = self.s[1] << 17;
        self.s[2] ^= self.s[0];
        self.s[3] ^= self.s[1];
        self.s[1] ^= self.s[2];
        self.s[0] ^= self.s[3];
        self.s[2] ^= t;
        self.s[3] = self.s[3].rotate_left(45);
        r
    }
    pub fn u32(&mut self) -> u32 {
        (self.next() >> 32) as u32
    }
    pub fn u16(&mut self) -> u16 {
        (self.next() >> 48) as u16
    }
    pub fn u8(&mut self) -> u8 {
        (self.next() >> 56) as u8
    }
    /// uniform in 0..n (n > 0)
    pub fn below(&mut self, n: u64) -> u64 {
        debug_assert!(n > 0);
        ((self.next() as u128 * n as u128) >> 64) as u64
    }
    pub fn range(&mut self, lo: u64, hi_incl: u64) -> u64 {
        lo + self.below(hi_incl - lo + 1)
    }
    pub fn chance(&mut self, num: u64, den: u64) -> bool {
        self.below(den) < num
    }
    pub fn pick<'a, T>(&mut self, xs: &'a [T]) -> &'a T {
        &xs[self.below(xs.len() as u64) as usize]
    }
    pub fn fill(&mut self, b: &mut [u8]) {
        for x in b.iter_mut() {
            *x = self.u8();
        }
    }
    /// pseudo-random bytes; now and then an edge pattern (all zero / all ones /
    /// one repeated byte) so that zero- and max-valued fields are exercised too
    pub fn bytes(&mut self, n: usize) -> Vec<u8> {
        match self.below(36) {
            0 => vec![0u8; n],
            1 => vec![0xffu8; n],
            2 => vec![self.u8(); n],
            _ => {
                let mut v = vec![0u8; n];
                self.fill(&mut v);
                v
            }
        }
    }
    /// non-zero marker bytes (never 0, so no accidental NUL / end tag)
    pub fn marker_bytes(&mut self, n: usize) -> Vec<u8> {
        (0..n).map(|_| (self.below(255) + 1) as u8).collect()
    }
    /// "interesting" u32: boundary values mixed with random ones
    pub fn u32_edge(&mut self) -> u32 {
        match self.below(8) {
            0 => 0,
            1 => 1,
            2 => u32::MAX,
            3 => 0x7fff_ffff,
            4 => 0x8000_0000,
            5 => self.below(64) as u32,
            _ => self.u32(),
        }
    }
    pub fn u64_edge(&mut self) -> u64 {
        match self.below(8) {
            0 => 0,
            1 => 1,
            2 => u64::MAX,
            3 => 0xffff_ffff,
            4 => 0x1_0000_0000,
            _ => self.next(),
        }
    }
}

// ---------------------------------------------------------------- JSON ----

#[derive(Clone, Debug)]
pub enum J {
    Null,
    B(bool),
    I(i128),
    S(String),
    A(Vec<J>),
    O(Vec<(String, J)>),
}

impl J {
    pub fn s(x: impl Into<String>) -> J {
        J::S(x.into())
    }
    pub fn u(x: u64) -> J {
        J::I(x as i128)
    }
    pub fn obj(kv: Vec<(&str, J)>) -> J {
        J::O(kv.into_iter().map(|(k, v)| (k.to_string(), v)).collect())
    }
    pub fn hex(b: &[u8]) -> J {
        J::S(hex(b))
    }
    pub fn write(&self, out: &mut String) {
        match self {
            J::Null => out.push_str("null"),
            J::B(b) => out.push_str(if *b { "true" } else { "false" }),
            J::I(i) => {
                let _ = write!(out, "{}", i);
            }
            J::S(s) => {
                out.push('"');
                for c in s.chars() {
                    match c {
                        '"' => out.push_str("\\\""),
                        '\\' => out.push_str("\\\\"),
                        '\n' => out.push_str("\\n"),
                        '\r' => out.push_str("\\r"),
                        '\t' => out.push_str("\\t"),
                        c if (c as u32) < 0x20 => {
                            let _ = write!(out, "\\u{:04x}", c as u32);
                        }
                        c => out.push(c),
                    }
                }
                out.push('"');
            }
            J::A(a) => {
                out.push('[');
                for (i, x) in a.iter().enumerate() {
                    if i > 0 {
                        out.push(',');
                    }
                    x.write(out);
                }
                out.push(']');
            }
            J::O(o) => {
                out.push('{');
                for (i, (k, v)) in o.iter().enumerate() {
                    if i > 0 {
                        out.push(',');
                    }
                    J::S(k.clone()).write(out);
                    out.push(':');
                    v.write(out);
                }
                out.push('}');
            }
        }
    }
    pub fn dump(&self) -> String {
        let mut s = String::new();
        self.write(&mut s);
        s
    }
}

pub fn hex(b: &[u8]) -> String {
    let mut s = String::with_capacity(b.len() * 2);
    for x in b {
        let _ = write!(s, "{:02x}", x);
    }
    s
}

/// Hex dump truncated for samples/witnesses.
pub fn hex_trunc(b: &[u8], max: usize) -> String {
    if b.len() <= max {
        hex(b)
    } else {
        format!("{}..(+{} bytes)", hex(&b[..max]), b.len() - max)
    }
}

// ------------------------------------------------------------ outcomes ----

thread_local! {
    static LAST_PANIC: RefCell<Option<String>> = const { RefCell::new(None) };
    static CATCH_DEPTH: std::cell::Cell<u32> = const { std::cell::Cell::new(0) };
}

pub fn install_panic_hook() {
    panic::set_hook(Box::new(|info| {
        let loc = info
            .location()
            .map(|l| {
                let f = l.file();
                // strip everything before the crate dir so sites are stable
                // (the repository may be /repo or a scratch worktree)
                let f = f.find("multiboot2").map(|i| &f[i..]).unwrap_or(f);
                format!("{}:{}", f, l.line())
            })
            .unwrap_or_else(|| "?".into());
        if CATCH_DEPTH.with(|d| d.get()) == 0 {
            // a panic outside the outcome classifier is a harness error
            eprintln!(
                "HARNESS PANIC at {} case={} pos={}: {}",
                loc,
                CURRENT_CASE.load(Ordering::Relaxed),
                CURRENT_POS.load(Ordering::Relaxed),
                info
            );
        }
        LAST_PANIC.with(|p| *p.borrow_mut() = Some(loc));
    }));
}

/// Result of running one API call under the outcome classifier (M4).
#[derive(Clone, PartialEq, Eq)]
pub enum Out<T> {
    Val(T),
    /// unwinding ("controlled") panic, with its source location (evidence only)
    Panic(String),
}

// panic sites/messages are evidence only and never part of a comparison
impl<T: core::fmt::Debug> core::fmt::Debug for Out<T> {
    fn fmt(&self, f: &mut core::fmt::Formatter<'_>) -> core::fmt::Result {
        match self {
            Out::Val(v) => write!(f, "Val({:?})", v),
            Out::Panic(_) => write!(f, "Panic"),
        }
    }
}

impl<T> Out<T> {
    pub fn is_panic(&self) -> bool {
        matches!(self, Out::Panic(_))
    }
    pub fn val(self) -> Option<T> {
        match self {
            Out::Val(v) => Some(v),
            Out::Panic(_) => None,
        }
    }
    pub fn as_ref(&self) -> Out<&T> {
        match self {
            Out::Val(v) => Out::Val(v),
            Out::Panic(s) => Out::Panic(s.clone()),
        }
    }
}

pub fn catch<T>(f: impl FnOnce() -> T) -> Out<T> {
    CATCH_DEPTH.with(|d| d.set(d.get() + 1));
    let r = panic::catch_unwind(AssertUnwindSafe(f));
    CATCH_DEPTH.with(|d| d.set(d.get() - 1));
    match r {
        Ok(v) => Out::Val(v),
        Err(_) => {
            let loc = LAST_PANIC
                .with(|p| p.borrow_mut().take())
                .unwrap_or_else(|| "?".into());
            Out::Panic(loc)
        }
    }
}

// -------------------------------------------------------------- context ----

#[derive(Clone, Copy, PartialEq, Eq, Debug)]
pub enum Tier {
    Quick,
    Thorough,
}

#[derive(Clone, Copy, PartialEq, Eq, Debug)]
pub enum Placement {
    /// exact-size heap allocation (Miri, ASan)
    Heap,
    /// flush against PROT_NONE guard pages (native)
    Guard,
}

pub static CURRENT_CASE: AtomicU64 = AtomicU64::new(u64::MAX);
pub static CURRENT_POS: AtomicU64 = AtomicU64::new(u64::MAX);

pub struct Violation {
    pub sig: String,
    pub detail: J,
}

pub struct Ctx {
    pub prop: String,
    pub seed: u64,
    pub tier: Tier,
    pub placement: Placement,
    pub profile: &'static str,
    pub case: u64,
    pub rng: Rng,
    pub counters: BTreeMap<String, u64>,
    pub distinct: HashSet<u64>,
    pub distinct_overflow: u64,
    pub samples: Vec<J>,
    pub viol_sigs: HashSet<String>,
    pub nviol: u64,
    pub evaluations: u64,
    pub trace: bool,
    pub transcript: bool,
    pub case_desc: Option<J>,
}

pub const DISTINCT_CAP: usize = 1 << 17;
pub const MAX_VIOL_LINES: u64 = 40;

impl Ctx {
    pub fn count(&mut self, key: &str) {
        self.count_n(key, 1);
    }
    pub fn count_n(&mut self, key: &str, n: u64) {
        if let Some(c) = self.counters.get_mut(key) {
            *c += n;
        } else {
            self.counters.insert(key.to_string(), n);
        }
    }
    /// records a distinct non-trivial case by hash
    pub fn nontrivial(&mut self, h: u64) {
        if self.distinct.len() < DISTINCT_CAP {
            self.distinct.insert(h);
        } else if !self.distinct.contains(&h) {
            self.distinct_overflow += 1;
        }
    }
    pub fn sample(&mut self, j: J) {
        if self.samples.len() < 6 {
            self.samples.push(j);
        }
    }
    pub fn want_sample(&self) -> bool {
        self.samples.len() < 6
    }
    /// One evaluation = one oracle decision on one generated input/history.
    pub fn eval(&mut self) {
        self.evaluations += 1;
    }
    pub fn evals(&mut self, n: u64) {
        self.evaluations += n;
    }
    /// A monitor fired. `sig` de-duplicates (property, call site, kind).
    pub fn violation(&mut self, sig: &str, detail: J) {
        self.nviol += 1;
        let first = self.viol_sigs.insert(sig.to_string());
        if first && (self.viol_sigs.len() as u64) <= MAX_VIOL_LINES {
            let j = J::obj(vec![
                ("property", J::s(self.prop.clone())),
                ("sig", J::s(sig)),
                ("case", J::u(self.case)),
                ("seed", J::u(self.seed)),
                ("profile", J::s(self.profile)),
                ("detail", detail),
                ("case_desc", self.case_desc.clone().unwrap_or(J::Null)),
            ]);
            println!("V {}", j.dump());
        }
    }
    /// line of the canonical transcript (C08)
    pub fn tline(&mut self, s: &str) {
        if self.transcript {
            println!("T {} {}", self.case, s);
        }
    }
    pub fn summary(&self) -> J {
        J::obj(vec![
            ("property", J::s(self.prop.clone())),
            ("evaluations", J::u(self.evaluations)),
            ("distinct", J::u(self.distinct.len() as u64)),
            ("distinct_overflow", J::u(self.distinct_overflow)),
            ("violations", J::u(self.nviol)),
            (
                "violation_sigs",
                J::A(self.viol_sigs.iter().map(|s| J::s(s.clone())).collect()),
            ),
            (
                "counters",
                J::O(self
                    .counters
                    .iter()
                    .map(|(k, v)| (k.clone(), J::u(*v)))
                    .collect()),
            ),
            ("samples", J::A(self.samples.clone())),
        ])
    }
    pub fn begin_case(&mut self, idx: u64) {
        self.case = idx;
        self.case_desc = None;
        CURRENT_CASE.store(idx, Ordering::Relaxed);
        self.rng = Rng::new(mix2(mix2(self.seed, str_hash(&self.prop)), idx));
        if self.trace {
            eprintln!("B {}", idx);
        }
    }
}

/// read little-endian helpers for the harness' own byte inspection
pub fn le16(b: &[u8], off: usize) -> u16 {
    u16::from_le_bytes([b[off], b[off + 1]])
}
pub fn le32(b: &[u8], off: usize) -> u32 {
    u32::from_le_bytes([b[off], b[off + 1], b[off + 2], b[off + 3]])
}
pub fn le64(b: &[u8], off: usize) -> u64 {
    let mut x = [0u8; 8];
    x.copy_from_slice(&b[off..off + 8]);
    u64::from_le_bytes(x)
}
pub fn put16(b: &mut [u8], off: usize, v: u16) {
    b[off..off + 2].copy_from_slice(&v.to_le_bytes());
}
pub fn put32(b: &mut [u8], off: usize, v: u32) {
    b[off..off + 4].copy_from_slice(&v.to_le_bytes());
}
pub fn put64(b: &mut [u8], off: usize, v: u64) {
    b[off..off + 8].copy_from_slice(&v.to_le_bytes());
}
pub fn round8(x: usize) -> usize {
    (x + 7) & !7
}

/// M3 touch oracle: really load every byte of a returned view.
#[inline(never)]
pub fn touch(b: &[u8]) -> u64 {
    let mut acc: u64 = 0;
    for x in b {
        // volatile so the optimiser cannot drop or widen the loads
        acc = acc.wrapping_add(unsafe { core::ptr::read_volatile(x) } as u64);
    }
    acc
}

pub fn touch_val<T: ?Sized>(v: &T) -> u64 {
    let n = core::mem::size_of_val(v);
    let p = v as *const T as *const u8;
    touch(unsafe { core::slice::from_raw_parts(p, n) })
}
