//! C19 — ELF-section iteration decodes 32/64-bit entries in order, inside the tag.

use super::Driver;
use crate::gen::{self, ELF_TYPE_CLASSES};
use crate::region::Region;
use crate::spec::{elf_class, elf_decode, ElfClass, MbiBuf};
use crate::util::*;
use multiboot2::{BootInformation, BootInformationHeader, ElfSection, ElfSectionIter, ElfSectionsTag, TagHeader};
use multiboot2_common::DynSizedStructure;

pub struct C19;

const MAXN: u64 = 5;
const MAXES: u64 = 128;

#[derive(Clone)]
struct Case {
    n: usize,
    entsize: usize,
    shndx: u32,
    /// the designated string table starts this many bytes into the name buffer
    /// (1: the table does not begin with a NUL byte and name index 0 is ".text")
    strtab_delta: u32,
    seclen: usize,
    img: Vec<u8>,
}

impl Case {
    fn fits(&self) -> bool {
        (self.entsize == 40 || self.entsize == 64) && self.n * self.entsize <= self.seclen
    }
    fn strtab_inside(&self) -> bool {
        (self.shndx as u64) * self.entsize as u64 + self.entsize as u64 <= self.seclen as u64
    }
    fn desc(&self, embedded: bool, via: &str) -> J {
        J::obj(vec![
            ("n", J::u(self.n as u64)),
            ("entsize", J::u(self.entsize as u64)),
            ("shndx", J::u(self.shndx as u64)),
            ("strtab_starts_at_name_buffer_plus", J::u(self.strtab_delta as u64)),
            ("section_bytes", J::u(self.seclen as u64)),
            ("entries_fit", J::B(self.fits())),
            ("strtab_entry_inside", J::B(self.strtab_inside())),
            ("embedded", J::B(embedded)),
            ("via", J::s(via)),
            ("tag_bytes", J::S(hex_trunc(&self.img, 96))),
        ])
    }
}

fn make(rng: &mut Rng, n: usize, entsize: usize, shndx: u32, seclen: usize) -> Case {
    let nb = gen::names();
    let size = 20 + seclen;
    let mut img = rng.bytes(round8(size));
    let strtab_delta = if rng.chance(1, 3) { 1 } else { 0 };
    put32(&mut img, 0, 9);
    put32(&mut img, 4, size as u32);
    put32(&mut img, 8, n as u32);
    put32(&mut img, 12, entsize as u32);
    put32(&mut img, 16, shndx);
    for b in &mut img[size..] {
        *b = 0xEE;
    }
    // entries that lie completely inside the section bytes get defined contents
    for i in 0..n {
        let o = 20 + i * entsize;
        if entsize < 8 || o + entsize > size {
            break;
        }
        let typ = if rng.chance(1, 3) { *rng.pick(ELF_TYPE_CLASSES) } else { 1 + rng.below(11) as u32 };
        let name_off = loop {
            let x = rng.pick(&nb.names).0;
            if x >= strtab_delta {
                break x;
            }
        };
        put32(&mut img, o, name_off - strtab_delta);
        put32(&mut img, o + 4, typ);
        if i as u32 == shndx {
            if entsize == 40 {
                put32(&mut img, o + 12, nb.addr as u32 + strtab_delta);
            } else if entsize == 64 {
                put64(&mut img, o + 16, nb.addr as u64 + strtab_delta as u64);
            }
        }
    }
    Case { n, entsize, shndx, strtab_delta, seclen, img }
}

impl C19 {
    fn drive(&self, ctx: &mut Ctx, c: &Case, mk: &dyn Fn() -> ElfSectionIter<'static>, base: usize, desc: &J) {
        let nb = gen::names();
        let viol = |ctx: &mut Ctx, sig: &str, msg: String| {
            ctx.violation(sig, J::obj(vec![("what", J::s(msg)), ("case", desc.clone())]));
        };
        let it = catch(|| mk());
        let mut it = match it {
            Out::Panic(site) => {
                if c.n == 0 {
                    // nothing to iterate: may yield nothing or be rejected
                    ctx.count("n=0:rejected@sections");
                } else if c.fits() && c.strtab_inside() {
                    // note: a string-table index outside the tag may be rejected as early as here
                    viol(ctx, &format!("rejected-conformant-tag@{}", site), "sections() panicked".into());
                } else if c.fits() && c.n > 0 && !c.strtab_inside() {
                    ctx.count("rejected@sections(strtab)");
                } else {
                    ctx.count("rejected@sections");
                }
                return;
            }
            Out::Val(it) => it,
        };
        // reference: in-use entries in order
        let mut exp = vec![];
        if c.fits() {
            for i in 0..c.n {
                let o = 20 + i * c.entsize;
                let e = elf_decode(&c.img[o..o + c.entsize], c.entsize);
                if elf_class(e.typ) != ElfClass::Unused {
                    exp.push((o, e));
                }
            }
        }
        let mut k = 0usize;
        loop {
            if k > c.n + 1 {
                viol(ctx, "too-many-items", "more items than entries".into());
                return;
            }
            let r = catch(|| it.next());
            let s: ElfSection = match r {
                Out::Panic(site) => {
                    if c.fits() {
                        viol(ctx, &format!("panic-on-conformant-tag@{}", site), format!("next() #{} panicked", k));
                    } else {
                        ctx.count("rejected@next");
                    }
                    return;
                }
                Out::Val(None) => {
                    if c.fits() {
                        if k != exp.len() {
                            viol(ctx, "count", format!("{} sections yielded, reference has {} in-use entries", k, exp.len()));
                        } else {
                            ctx.count("iterated-conformant");
                            ctx.count_n("sections", k as u64);
                            // M6b: every other way of consuming the iterator sees the same sections
                            crate::iterproto::check(
                                ctx,
                                "elf-sections",
                                mk,
                                &|s: ElfSection| (s.section_type_raw(), s.start_address(), s.size(), s.flags().bits(), s.addralign()),
                                4096, false);
                            crate::iterproto::check_clone(
                                ctx,
                                "elf-sections",
                                mk,
                                &|s: ElfSection| (s.section_type_raw(), s.start_address(), s.size(), s.flags().bits(), s.addralign()),
                                4096);
                        }
                    } else if c.n == 0 {
                        ctx.count("n=0:nothing-yielded");
                    } else {
                        viol(ctx, "unfit-tag-not-rejected", format!("iteration over a tag whose entries do not fit ended normally after {} items", k));
                    }
                    return;
                }
                Out::Val(Some(s)) => s,
            };
            if !c.fits() {
                // an item was produced although the entries reach outside the tag / have no known layout
                // (reading it would leave the tag; the engines see that too)
                viol(ctx, "item-from-unfit-tag", format!("item #{} produced", k));
                return;
            }
            if k >= exp.len() {
                viol(ctx, "extra-item", format!("item #{} but only {} in-use entries", k, exp.len()));
                return;
            }
            let (o, e) = exp[k];
            let acc = catch(|| {
                (
                    s.section_type_raw(),
                    s.section_type(),
                    s.flags().bits(),
                    s.start_address(),
                    s.size(),
                    s.addralign(),
                    s.is_allocated(),
                    if e.addr.checked_add(e.size).is_some() { Some(s.end_address()) } else { None },
                )
            });
            match acc {
                Out::Panic(site) => {
                    viol(ctx, &format!("accessor-panic@{}", site), format!("entry at tag+{}", o));
                    return;
                }
                Out::Val((raw, ty, fl, addr, size, al, alloc, end)) => {
                    let ok = raw == e.typ
                        && super::c20_class(ty) == elf_class(e.typ)
                        && fl == (e.flags & 7)
                        && addr == e.addr
                        && size == e.size
                        && al == e.addralign
                        && alloc == (e.flags & 2 != 0)
                        && end.map_or(true, |x| x == e.addr + e.size);
                    if !ok {
                        viol(
                            ctx,
                            if c.entsize == 40 { "fields-elf32" } else { "fields-elf64" },
                            format!("item #{} (entry at tag+{}): raw {:#x} flags {:#x} addr {:#x} size {:#x} align {:#x}; reference {:?}", k, o, raw, fl, addr, size, al, e),
                        );
                        return;
                    }
                }
            }
            // names resolve through the designated string-table entry
            let name_known = nb.names.iter().find(|x| x.0 == e.name_index.wrapping_add(c.strtab_delta));
            if let Some((_, nbytes)) = name_known {
                let r = catch(|| s.name().map(|x| x.as_bytes().to_vec()).map_err(|_| ()));
                if c.strtab_inside() {
                    let expn: Result<Vec<u8>, ()> = if std::str::from_utf8(nbytes).is_ok() { Ok(nbytes.clone()) } else { Err(()) };
                    match r {
                        Out::Val(g) if g == expn => ctx.count("name:resolved"),
                        o2 => {
                            viol(ctx, "name", format!("name() = {:?}, expected {:?}", o2, expn));
                            return;
                        }
                    }
                } else {
                    match r {
                        Out::Panic(_) => ctx.count("rejected@name(strtab-outside-tag)"),
                        Out::Val(v) => {
                            viol(ctx, "strtab-outside-tag-not-rejected", format!("name() returned {:?} although the string-table entry (index {}) is outside the tag", v, c.shndx));
                            return;
                        }
                    }
                }
            }
            let _ = base;
            k += 1;
        }
    }

    fn one(&self, ctx: &mut Ctx, c: &Case) {
        // standalone
        for (embedded, via) in [(false, "sections()"), (true, "sections()"), (true, "elf_sections()")] {
            ctx.eval();
            let desc = c.desc(embedded, via);
            if !embedded {
                let reg = Region::new(ctx.placement, &c.img);
                let t = catch(|| DynSizedStructure::<TagHeader>::ref_from_slice(reg.as_slice()).unwrap().cast::<ElfSectionsTag>());
                match t {
                    Out::Val(t) => {
                        let tp = t as *const ElfSectionsTag;
                        let mk = move || -> ElfSectionIter<'static> { unsafe { core::mem::transmute((&*tp).sections()) } };
                        self.drive(ctx, c, &mk, reg.addr(), &desc);
                    }
                    Out::Panic(s) => ctx.violation(&format!("cast-panic@{}", s), desc),
                }
            } else {
                let mut m = MbiBuf::new();
                m.push_raw(&c.img);
                m.push(0x4141_4141, &[0x42; 4]);
                let bytes = m.finish();
                let reg = Region::new(ctx.placement, &bytes);
                let bi = unsafe { BootInformation::load(reg.ptr().cast::<BootInformationHeader>()) }.expect("loads");
                let bip = &bi as *const BootInformation;
                if via == "sections()" {
                    let mk = move || -> ElfSectionIter<'static> { unsafe { core::mem::transmute((&*bip).elf_sections_tag().expect("present").sections()) } };
                    self.drive(ctx, c, &mk, reg.addr() + 8, &desc);
                } else {
                    let mk = move || -> ElfSectionIter<'static> { unsafe { core::mem::transmute((&*bip).elf_sections().expect("present")) } };
                    self.drive(ctx, c, &mk, reg.addr() + 8, &desc);
                }
            }
        }
        ctx.nontrivial(mix2(mix2(c.n as u64, c.entsize as u64), mix2(c.shndx as u64, c.seclen as u64)));
        if ctx.want_sample() && c.fits() && c.n >= 2 {
            ctx.sample(c.desc(false, "sections()"));
        }
    }
}

fn gcd(a: usize, b: usize) -> usize {
    if b == 0 {
        a
    } else {
        gcd(b, a % b)
    }
}

impl Driver for C19 {
    fn ncases(&self, ctx: &Ctx) -> u64 {
        (MAXN + 1) * (MAXES + 1) + if ctx.tier == Tier::Thorough { 20_000 } else { 2_000 }
    }
    fn run_case(&mut self, ctx: &mut Ctx, idx: u64) {
        let grid = (MAXN + 1) * (MAXES + 1);
        if idx < grid {
            let n = (idx / (MAXES + 1)) as usize;
            let entsize = (idx % (MAXES + 1)) as usize;
            let mut shs: Vec<u32> = (0..=n as u32 + 1).collect();
            shs.push(1 << 16);
            shs.push(u32::MAX);
            // indices whose byte offset wraps around 2^32 (back into the tag)
            if entsize > 0 {
                let q = ((1u64 << 32) / entsize as u64) as u32;
                shs.push(q);
                shs.push(q.wrapping_add(1));
            }
            let base = n * entsize;
            let mut lens = vec![0usize, base, base + 1, base + 8];
            if base >= 1 {
                lens.push(base - 1);
            }
            if base >= 8 {
                lens.push(base - 8);
            }
            lens.sort();
            lens.dedup();
            // full cross product only for the two real layouts; elsewhere a sample
            let full = entsize == 40 || entsize == 64 || cfg!(not(miri)) && (entsize % 8 == 0);
            for &seclen in &lens {
                for &sh in &shs {
                    if !full && !ctx.rng.chance(1, 4) {
                        continue;
                    }
                    if cfg!(miri) && !ctx.rng.chance(1, 3) {
                        continue;
                    }
                    let c = make(&mut ctx.rng, n, entsize, sh, seclen);
                    self.one(ctx, &c);
                }
            }
            return;
        }
        // entry counts whose byte extent wraps around 2^32 (to 0 or to a few entries
        // that would fit): must be rejected like any other count that leaves the tag
        if ctx.rng.chance(1, 6) {
            let entsize = *ctx.rng.pick(&[40usize, 64, 64, 8, 16, 24]);
            let q = (1u64 << 32).div_ceil(entsize as u64) as usize;
            let n = match ctx.rng.below(4) {
                0 => q,
                1 => q + 1,
                2 => q + ctx.rng.below(4) as usize,
                _ => {
                    // exact multiples of 2^32: 40 * 0x2000_0000 = 5 * 2^32
                    let g = (1usize << 32) / gcd(entsize, 1 << 32);
                    g * (1 + ctx.rng.below(((u32::MAX as usize) / g) as u64) as usize).min((u32::MAX as usize) / g)
                }
            };
            let n = n.min(u32::MAX as usize);
            let seclen = entsize * (1 + ctx.rng.below(3) as usize) + *ctx.rng.pick(&[0usize, 4, 8]);
            let sh = ctx.rng.below(2) as u32;
            let c = make(&mut ctx.rng, n, entsize, sh, seclen);
            self.one(ctx, &c);
            ctx.count("wrapping-entry-count");
            return;
        }
        // random conformant tags with richer contents (both layouts, all type classes)
        let n = ctx.rng.below(MAXN + 1) as usize;
        let entsize = if ctx.rng.chance(1, 2) { 40 } else { 64 };
        let sh = if n == 0 { 0 } else { ctx.rng.below(n as u64) as u32 };
        let extra = *ctx.rng.pick(&[0usize, 0, 8, 24]);
        let c = make(&mut ctx.rng, n, entsize, sh, n * entsize + extra);
        self.one(ctx, &c);
    }
}
