#![no_main]
use libfuzzer_sys::fuzz_target;

fuzz_target!(|data: &[u8]| {
    let sigs = mb2mon::fuzz_entry::fuzz_one(data);
    if !sigs.is_empty() {
        eprintln!("MONITOR {:?}", sigs);
        std::process::abort();
    }
});
