//! `mon` – runtime monitors for rust-osdev/multiboot2 (see /verif/DESIGN.md).
//!
//! mon <PROP> [--seed N] [--tier quick|thorough] [--shard i/n] [--from IDX]
//!            [--only IDX] [--max-cases N] [--budget-ms N] [--placement heap|guard]
//!            [--trace] [--transcript]

#![allow(clippy::all)]
#![allow(deprecated)]
#![allow(dead_code, unused_imports, unused_variables)]

use mb2mon::{drivers, region, util};

use std::collections::{BTreeMap, HashSet};
use std::time::Instant;
use util::{Ctx, Placement, Rng, Tier};

pub struct Args {
    pub prop: String,
    pub seed: u64,
    pub tier: Tier,
    pub shard: u64,
    pub nshards: u64,
    pub from: u64,
    pub only: Option<u64>,
    pub max_cases: u64,
    pub budget_ms: u64,
    pub placement: Placement,
    pub trace: bool,
    pub transcript: bool,
}

fn parse_args() -> Args {
    let mut a = Args {
        prop: String::new(),
        seed: 1,
        tier: Tier::Quick,
        shard: 0,
        nshards: 1,
        from: 0,
        only: None,
        max_cases: u64::MAX,
        budget_ms: u64::MAX,
        placement: if cfg!(miri) {
            Placement::Heap
        } else {
            Placement::Guard
        },
        trace: false,
        transcript: false,
    };
    let mut it = std::env::args().skip(1);
    while let Some(x) = it.next() {
        let mut val = || it.next().expect("missing value");
        match x.as_str() {
            "--seed" => a.seed = val().parse().unwrap(),
            "--tier" => {
                a.tier = match val().as_str() {
                    "quick" => Tier::Quick,
                    "thorough" => Tier::Thorough,
                    t => panic!("bad tier {t}"),
                }
            }
            "--shard" => {
                let v = val();
                let (i, n) = v.split_once('/').unwrap();
                a.shard = i.parse().unwrap();
                a.nshards = n.parse().unwrap();
            }
            "--from" => a.from = val().parse().unwrap(),
            "--only" => a.only = Some(val().parse().unwrap()),
            "--max-cases" => a.max_cases = val().parse().unwrap(),
            "--budget-ms" => a.budget_ms = val().parse().unwrap(),
            "--placement" => {
                a.placement = match val().as_str() {
                    "heap" => Placement::Heap,
                    "guard" => Placement::Guard,
                    t => panic!("bad placement {t}"),
                }
            }
            "--trace" => a.trace = true,
            "--transcript" => a.transcript = true,
            p if !p.starts_with('-') && a.prop.is_empty() => a.prop = p.to_string(),
            o => panic!("unknown argument {o}"),
        }
    }
    assert!(!a.prop.is_empty(), "usage: mon <PROP> ...");
    a
}

fn gcd(a: u64, b: u64) -> u64 {
    if b == 0 {
        a
    } else {
        gcd(b, a % b)
    }
}

fn main() {
    let args = parse_args();
    util::install_panic_hook();
    region::install_crash_monitor();

    let mut ctx = Ctx {
        prop: args.prop.clone(),
        seed: args.seed,
        tier: args.tier,
        placement: args.placement,
        profile: if cfg!(debug_assertions) {
            "dev"
        } else {
            "release"
        },
        case: 0,
        rng: Rng::new(0),
        counters: BTreeMap::new(),
        distinct: HashSet::new(),
        distinct_overflow: 0,
        samples: vec![],
        viol_sigs: HashSet::new(),
        nviol: 0,
        evaluations: 0,
        trace: args.trace,
        transcript: args.transcript,
        case_desc: None,
    };

    if args.prop == "CORPUS" {
        // writes generator-made seed inputs for the libFuzzer target (E6)
        let dir = std::env::var("MB2_CORPUS_DIR").expect("MB2_CORPUS_DIR");
        std::fs::create_dir_all(&dir).unwrap();
        for (i, d) in mb2mon::fuzz_entry::corpus_seeds(400).iter().enumerate() {
            std::fs::write(format!("{}/seed-{:04}", dir, i), d).unwrap();
        }
        return;
    }
    if args.prop == "FUZZONE" {
        // replays one libFuzzer artifact through the monitors
        let path = std::env::var("MB2_INPUT").expect("MB2_INPUT");
        let data = std::fs::read(path).unwrap();
        let sigs = mb2mon::fuzz_entry::fuzz_one(&data);
        println!("monitors fired: {:?}", sigs);
        std::process::exit(if sigs.is_empty() { 0 } else { 1 });
    }
    let mut drv = drivers::make(&args.prop).unwrap_or_else(|| {
        eprintln!("unknown property/driver {}", args.prop);
        std::process::exit(3);
    });
    let total = drv.ncases(&ctx);
    let t0 = Instant::now();
    let mut ran: u64 = 0;
    let mut cut = false;
    if let Some(idx) = args.only {
        ctx.begin_case(idx);
        drv.run_case(&mut ctx, idx);
        ran = 1;
    } else {
        // positions are sharded; the case index is a fixed permutation of the
        // position so that sampled shards (Miri) are not correlated with the
        // structure of enumerated case spaces
        let mul = {
            let mut m = 0x9e37_79b9_7f4a_7c15u64 % total.max(1);
            if m == 0 {
                m = 1;
            }
            while gcd(m, total.max(1)) != 1 {
                m += 1;
            }
            m
        };
        let perm = |p: u64| -> u64 { ((p as u128 * mul as u128 + 12345) % total.max(1) as u128) as u64 };
        let mut pos = args.from;
        let r = pos % args.nshards;
        if r != args.shard {
            pos += (args.shard + args.nshards - r) % args.nshards;
        }
        while pos < total {
            if ran >= args.max_cases {
                cut = true;
                break;
            }
            if args.budget_ms != u64::MAX
                && (cfg!(miri) || (ran & 15) == 0)
                && t0.elapsed().as_millis() as u64 > args.budget_ms
            {
                cut = true;
                break;
            }
            let idx = perm(pos);
            util::CURRENT_POS.store(pos, std::sync::atomic::Ordering::Relaxed);
            ctx.begin_case(idx);
            if ctx.trace {
                eprintln!("P {}", pos);
            }
            drv.run_case(&mut ctx, idx);
            ran += 1;
            pos += args.nshards;
        }
    }
    drv.finish(&mut ctx);
    util::CURRENT_CASE.store(u64::MAX, std::sync::atomic::Ordering::Relaxed);

    // distinct hashes, for an exact union across shards
    let hs: Vec<u64> = ctx.distinct.iter().copied().collect();
    for chunk in hs.chunks(512) {
        let mut line = String::from("H");
        for h in chunk {
            line.push(' ');
            line.push_str(&format!("{:x}", h));
        }
        println!("{}", line);
    }
    let mut s = ctx.summary();
    if let util::J::O(ref mut kv) = s {
        kv.push(("cases_run".into(), util::J::u(ran)));
        kv.push(("cases_total".into(), util::J::u(total)));
        kv.push(("cut_by_budget".into(), util::J::B(cut)));
        kv.push(("shard".into(), util::J::u(args.shard)));
        kv.push(("nshards".into(), util::J::u(args.nshards)));
        kv.push(("profile".into(), util::J::s(ctx.profile)));
        kv.push((
            "features".into(),
            util::J::s(if cfg!(feature = "builder") {
                "default"
            } else if cfg!(feature = "alloc") {
                "alloc-only"
            } else {
                "no-default-features"
            }),
        ));
        kv.push((
            "engine".into(),
            util::J::s(if cfg!(miri) {
                "miri"
            } else if args.placement == Placement::Guard {
                "native-guard"
            } else {
                "native-heap"
            }),
        ));
        kv.push((
            "wall_ms".into(),
            util::J::u(t0.elapsed().as_millis() as u64),
        ));
    }
    println!("SUMMARY {}", s.dump());
    // exit code: 0 = no monitor fired in this shard, 1 = at least one did
    std::process::exit(if ctx.nviol > 0 { 1 } else { 0 });
}
