"""Per-property run plans, non-triviality rules and assumptions (see DESIGN.md §2)."""


def run(engine, **kw):
    d = dict(engine=engine)
    d.update(kw)
    return d


NATIVE2 = lambda **kw: [run("dev", **kw), run("rel", **kw)]

PLANS = {}
RULES = {}
ASSUMPTIONS = {
    "*": [
        "verdicts are about the executions observed, not all inputs: runtime monitoring (Miri / native guard pages / ASan / hand-written oracles)",
        "reference model (harness/src/spec.rs) follows the Multiboot2 spec 2.0 and, where they differ, GRUB's multiboot2.h (ELF counts u32, framebuffer u16 reserved + u16 palette count)",
        "Miri runs with -Zmiri-disable-stacked-borrows -Zmiri-permissive-provenance: aliasing-model errors are not monitored (no property speaks about aliasing)",
        "target x86_64-unknown-linux-gnu, little-endian",
    ],
}
LEVEL_NOTES = {}

# ------------------------------------------------------------------ C02 ----
PLANS["C02"] = dict(
    quick=[run("dev", procs=4), run("rel", procs=4), run("miri", procs=8, extra=[], timeout_s=900), run("asan", procs=2)],
    thorough=[run("dev", procs=8), run("rel", procs=8), run("miri", procs=16, density=8, timeout_s=3000), run("miri-rel", procs=16, density=16, timeout_s=3000), run("asan", procs=4)],
    exhaustive=dict(quick=True, thorough=True),
    exhaustive_domain=dict(
        quick="null pointer; total_size 0..=256 x reserved {0, marker} x 8 shapes of the last 8 bytes; 84 sampled sizes up to 1 MiB",
        thorough="null pointer; total_size 0..=8192 x reserved {0, marker} x 8 shapes of the last 8 bytes; 84 sampled sizes up to 1 MiB (Miri: a seed-chosen 1/8 resp. 1/16 slice)",
    ),
)
RULES["C02"] = ("bounded-exhaustive grid: every total_size in the range x reserved word {0, random odd marker} x last-8-bytes shape "
                "{end tag, type!=0, size 0/7/9/16/0xffffffff, random}; region = exactly max(total_size, 8) bytes. Every grid point is a "
                "distinct input; it counts as non-trivial because the load verdict was compared with the reference precedence "
                "(and start/end/total_size/as_ptr on success). distinct = distinct (total_size, reserved, shape) hashes.")
ASSUMPTIONS["C02"] = ["pointer is 8-aligned and (when non-null) backed by max(total_size, 8) readable bytes, as the property states"]

# ------------------------------------------------------------------ C03 ----
PLANS["C03"] = dict(
    quick=[run("dev"), run("rel"), run("asan", procs=4), run("miri", procs=16, density=24, max_cases=110, timeout_s=900)],
    thorough=[run("dev"), run("rel"), run("asan", procs=8), run("miri", procs=16, density=40, timeout_s=3000), run("miri-rel", procs=16, density=80, timeout_s=3000)],
    exhaustive=dict(quick=True, thorough=True),
    exhaustive_domain=dict(
        quick="native: the complete tree of declared-size sequences (every size 0..=remaining+9 at every walk position) over areas of 8..=48 bytes, directly through TagIter and through load()+tags(); plus 20000 random longer walks. Miri/ASan: slices of the same case space",
        thorough="same tree over areas of 8..=72 bytes (~1.1e6 walks) plus 400000 random walks",
    ),
)
RULES["C03"] = ("cases: (a) every leaf of the size tree — at each walk position every declared size 0..=remaining+9, until the walk completes or must panic — for "
                "every area size up to the bound, once via multiboot2::TagIter::new and once via BootInformation::load()+tags() (+fresh iterator, module iterator, "
                "and for 1/4 of them a random next()/clone()/fresh history over <=4 iterators stepped against an index model); (b) random walks of <=64 tags with "
                "one size corrupted in 1/3 of them. Non-trivial: the reference walk has >=2 tags or ends in a required panic. distinct = hash of (mode, tag sizes, types, end kind, offending size).")
ASSUMPTIONS["C03"] = ["a type-3 tag smaller than the module's fixed part (16) may be rejected by a panic when the module iterator reaches it (C05)"]

# ------------------------------------------------------------------ C14 ----
PLANS["C14"] = dict(
    quick=[run("dev"), run("rel"), run("asan", procs=4), run("miri", procs=16, density=20, max_cases=16, timeout_s=900)],
    thorough=[run("dev"), run("rel"), run("asan", procs=8), run("miri", procs=16, density=4, timeout_s=3400), run("miri-rel", procs=16, density=8, timeout_s=3400)],
    exhaustive=dict(quick=True, thorough=True),
    exhaustive_domain=dict(
        quick="native: 8 header kinds x slice length 0..=72 x start offset 0..=7 x declared size 0..=len+16 (+BytesRef on the same grid); rounding law for all x < 2^26 and +-64 around every power of two up to 2^32",
        thorough="same grid; rounding law for all x < 2^32",
    ),
)
RULES["C14"] = ("bounded-exhaustive grid (header kind, slice length, start misalignment, declared size) for TagHeader, BootInformationHeader, HeaderTagHeader, "
                "Multiboot2BasicHeader, the crate's DummyTestHeader and harness headers of 8/16/24 bytes; each grid point is judged against the specified error precedence and, on success, "
                "address/header/payload/size_of_val identities. Rounding law in blocks of 2^20 arguments. distinct = hash of the grid point / block; every grid point is a distinct input "
                "(set capped per shard, overflow reported as distinct_cap_overflow).")
ASSUMPTIONS["C14"] = ["a declaration below the header size may be rejected by an error or a panic, or yield a header-only structure (as the property allows)"]

# ------------------------------------------------------------------ C20 ----
PLANS["C20"] = dict(
    quick=[run("dev"), run("rel"), run("miri", procs=8, density=2, max_cases=12, timeout_s=900)],
    thorough=[run("rel", timeout_s=3000), run("dev", density=64, timeout_s=3000), run("miri", procs=16, density=128, timeout_s=3000)],
    exhaustive=dict(quick=False, thorough=True),
    exhaustive_domain=dict(
        quick="not exhaustive: x < 2^20, the 65536-value blocks around every ELF range boundary / 2^31 / 2^32, 256 seed-chosen blocks (2^24 values); all 256 framebuffer type bytes x 3 colour-info shapes",
        thorough="release build: all 2^32 values for every law (tag type, memory-area type, ELF classification in both layouts at boundaries); dev build and Miri: 1/64 resp. sampled",
    ),
)
RULES["C20"] = ("every u32 value is its own case: all conversion/equality laws for TagType/TagTypeId, MemoryAreaType/MemoryAreaTypeId, and ElfSection::section_type() observed by rewriting "
                "the raw type word of a one-entry ELF tag (ELF32 for even, ELF64 for odd values, both around range boundaries); evaluations counts values. "
                "distinct_nontrivial counts distinct 65536-value blocks (each block = 65536 distinct values, so distinct values = 65536 x blocks natively) plus the 768 (type byte, shape) framebuffer cases.")

# ------------------------------------------------------------------ C10 ----
PLANS["C10"] = dict(
    quick=[run("dev"), run("rel"), run("miri", procs=16, density=2, max_cases=10, timeout_s=900), run("asan", procs=4, density=4)],
    thorough=[run("dev", timeout_s=3000), run("rel", timeout_s=3000), run("miri", procs=16, density=16, timeout_s=3000)],
    exhaustive=dict(quick=False, thorough=True),
    exhaustive_domain=dict(
        quick="checksum law: 128 blocks of 2^20 lengths (incl. the blocks where magic+arch+length crosses 2^32) x both architectures + 2^20 random (magic, arch, length) triples; load: every length 0..=256 x 2 archs x {right, wrong magic} x {right, off-by-one, random checksum}, 60 sampled lengths up to 1 MiB",
        thorough="checksum law: all 2^32 lengths x both architectures for the specified magic, in the dev and the release build; load grid with every length 0..=8192",
    ),
)
RULES["C10"] = ("checksum law evaluated per (length, architecture) value in blocks of 2^20 lengths, plus random (magic, arch, length) triples; load grid: (length, arch, magic right/wrong, checksum right/off-by-one/random), "
                "region = exactly max(length, 16) bytes, verdict compared with the specified precedence. distinct = law blocks + distinct load grid points.")
ASSUMPTIONS["C10"] = ["architecture field holds a defined value (0 or 4), as the property states"]

# ------------------------------------------------------------------ C13 ----
PLANS["C13"] = dict(
    quick=[run("dev"), run("rel"), run("asan", procs=8), run("miri", procs=16, density=2, max_cases=2, timeout_s=900)],
    thorough=[run("dev"), run("rel"), run("asan"), run("miri", procs=16, density=1, max_cases=12, timeout_s=3000)],
)
RULES["C13"] = ("buffer lengths: every 0..=96, 8150..=8230, 16340..=16400 and seed-chosen others <= 16 KiB; per length: no magic; magic at 0/4/8, at len-16..len, at 8180..=8196 and two random positions, "
                "each with stored length in {0, 8, 16, rest-1, rest, rest+1, rest&~7, 2^31, 2^32-1}; two occurrences (misaligned then aligned and the reverse). Filler bytes cannot form the magic. "
                "Result compared (pointer, length, index / None / Err) with the reference search. distinct = hash of (buffer length, first magic position, stored length).")

# ------------------------------------------------------------------ C16 ----
PLANS["C16"] = dict(
    quick=[run("dev"), run("rel"), run("asan", procs=8), run("miri", procs=16, density=3, max_cases=9, timeout_s=900)],
    thorough=[run("dev"), run("rel"), run("asan"), run("miri", procs=16, density=1, timeout_s=3000)],
    exhaustive=dict(quick=True, thorough=True),
    exhaustive_domain=dict(
        quick="native: all compositions of total content 0..=24 into 0..=4 slices (empty ones included) for 3 DST types; 10 DST constructors x content lengths 0..=40; clone of each",
        thorough="same with total content 0..=48",
    ),
)
RULES["C16"] = ("cases: every composition of n content bytes into k slices for DummyDstTag, DynSizedStructure<TagHeader> and a harness DST with a 16-byte header; every DST constructor of both crates with each content length; "
                "clone_dyn of every object; clones of built boot informations/headers. Judged: size field, byte image, 8-alignment, size_of_val, and (native) the allocation ledger: one alloc of (round8(total), 8) at the object's address, "
                "one dealloc with the same triple on drop. Under Miri the interpreter checks dealloc layout, double free and leaks instead. distinct = hash of (type, composition) / (constructor, length).")

# ------------------------------------------------------------------ C17 ----
PLANS["C17"] = dict(
    quick=[run("dev"), run("rel"), run("asan", procs=8), run("miri", procs=16, density=60, max_cases=30, timeout_s=900)],
    thorough=[run("dev", timeout_s=3000), run("rel", timeout_s=3000), run("asan", density=8), run("miri", procs=16, density=400, timeout_s=3000)],
    exhaustive=dict(quick=True, thorough=True),
    exhaustive_domain=dict(
        quick="native: all byte words of length 0..=4 over {00,'a',' ',C3,A9,E2,82,AC,80,FF} x 3 string-tag kinds x every declared size fixed..=fixed+len+2 x {0xEE, NUL} fill, standalone and (lengths<=3 and every 4th word) embedded; constructors: all strings of <=4 chars over {a, space, e-acute, euro, U+10348, NUL} + 200 random strings <= 1 KiB",
        thorough="same with words of length 0..=6",
    ),
)
RULES["C17"] = ("parser cases: (kind, word, declared size, fill, standalone/embedded); expected = bytes before the first NUL inside tag[fixed..size] if valid UTF-8, MissingNul / Utf8 otherwise; returned text compared by content and address. "
                "constructor cases: read-back, stored bytes and size for NUL-free strings; stored-as-is for strings ending in NUL. distinct = hash of (word, kind) resp. (string, kind).")

# ------------------------------------------------------------------ C05 ----
PLANS["C05"] = dict(
    quick=[run("dev"), run("rel"), run("asan", procs=8), run("miri", procs=16, timeout_s=900), run("miri-rel", procs=16, density=2, timeout_s=900)],
    thorough=[run("dev"), run("rel"), run("asan"), run("miri", procs=16, timeout_s=3000), run("miri-rel", procs=16, timeout_s=3000)],
    exhaustive=dict(quick=True, thorough=True),
    exhaustive_domain=dict(
        quick="13 variable-length kinds of both crates x every declared size 0..=FIXED+3*ELEM+16, standalone (exact allocation) and embedded before a marker tag; 3 declarations beyond the region per kind",
        thorough="same",
    ),
)
RULES["C05"] = ("cases: (kind, declared size, standalone/embedded); the exposed part's (offset, element count) and the view's in-memory size must equal (FIXED, (size-FIXED)/ELEM, round8(size)); "
                "size < FIXED or a remainder must be rejected by a panic. Observables: public slice getters where they exist; for private parts size_of_val, len()*desc_size, and the element count in derived Debug output (network). "
                "distinct = hash of (kind, size, embedded).")
ASSUMPTIONS["C05"] = ["string kinds: the last declared byte is NUL and the text ASCII, so the returned length reveals the extent", "EFI map bytes are observed with descriptor size 40 / version 1; sizes whose map length is not a multiple of 40 must be rejected (C18)"]

# ------------------------------------------------------------------ C15 ----
PLANS["C15"] = dict(
    quick=[run("dev"), run("rel"), run("asan", procs=8), run("miri", procs=16, density=4, timeout_s=900)],
    thorough=[run("dev"), run("rel"), run("asan"), run("miri", procs=16, timeout_s=3000), run("miri-rel", procs=16, timeout_s=3000)],
    exhaustive=dict(quick=True, thorough=True),
    exhaustive_domain=dict(
        quick="89 target types (7 sized with 0..=6 extra words; 30 DST shapes: fixed part 8/12/16/20/24 x element size 1/2/3/4/8/24, each asserting and flooring; 22 built-in kinds) x every tag size 8..=96 (VBE: 744..=832), via cast on a standalone tag and via get_tag on a loaded boot information; Miri: 1/4 slice",
        thorough="same, complete under Miri (dev and release MIR)",
    ),
)
RULES["C15"] = ("cases: (target type, tag size); outcome must be a panic or a view at the tag's address whose size_of_val equals the tag size rounded up to 8; every byte of the view is read (M3). distinct = hash of (type, size).")
ASSUMPTIONS["C15"] = ["VBE tags carry a defined memory_model byte (values > 7 are the known finding KF-VBE-MEMORY-MODEL)"]

# ------------------------------------------------------------------ C18 ----
PLANS["C18"] = dict(
    quick=[run("dev"), run("rel"), run("asan", procs=8), run("miri", procs=16, density=2, timeout_s=900)],
    thorough=[run("dev"), run("rel"), run("asan"), run("miri", procs=16, timeout_s=3000), run("miri-rel", procs=16, timeout_s=3000)],
    exhaustive=dict(quick=True, thorough=True),
    exhaustive_domain=dict(
        quick="descriptor size 0..=128 x version {1, 0, 2, random} x map length in {k*d, k*d+-1, k*d+-8 : k = 0..=4}, standalone and embedded; every prefix of the iteration for len(); Miri: every second case",
        thorough="same, complete under Miri (dev and release MIR)",
    ),
)
RULES["C18"] = ("cases: (desc_size, version, map length, standalone/embedded) with random descriptor bytes; acceptable combinations: item count, item addresses, decoded fields, len() after every next(), clone; "
                "any other combination must panic before an item is produced. distinct = hash of the case tuple.")

# ------------------------------------------------------------------ C19 ----
PLANS["C19"] = dict(
    quick=[run("dev"), run("rel"), run("asan", procs=8), run("miri", procs=16, density=3, timeout_s=900)],
    thorough=[run("dev"), run("rel"), run("asan"), run("miri", procs=16, timeout_s=3000), run("miri-rel", procs=16, density=2, timeout_s=3000)],
    exhaustive_domain=dict(
        quick="entry count 0..=5 x entry size 0..=128 x string-table index {0..=n+1, 2^16, 2^32-1} x section byte length {0, n*e, n*e+-1, n*e+-8} (full cross product for entry sizes 40, 64 and multiples of 8, 1/4 sample elsewhere), via sections() standalone, via elf_sections_tag().sections() and the deprecated elf_sections(); 2000 random conformant tags",
        thorough="same + 20000 random conformant tags",
    ),
)
RULES["C19"] = ("cases: (n, entsize, shndx, section byte length) with raw types from every class; conformant tags: yielded sequence = in-use entries in order with type/flags/address/size/alignment decoded per layout and names through the designated "
                "string-table entry (which points at a harness buffer below 4 GiB); otherwise a panic is required before anything is produced (string-table index outside the tag: by the time a name is resolved). distinct = hash of the case tuple.")
ASSUMPTIONS["C19"] = ["ELF section names live at an external address (documented exception): the string-table entry's address field is set to a harness-owned buffer",
                      "n = 0 may yield nothing or be rejected", "ElfSection::end_address() is compared only where addr+size does not overflow"]
