//! C18 — EFI memory-map iteration honours descriptor stride, count and bounds.

use super::Driver;
use crate::region::Region;
use crate::spec::{efi_acceptable, efi_decode, EfiDesc, MbiBuf};
use crate::util::*;
use multiboot2::{BootInformation, BootInformationHeader, EFIMemoryDesc, EFIMemoryMapTag, TagHeader};
use multiboot2_common::DynSizedStructure;

pub struct C18;

const MAXD: u64 = 128;
const VERSIONS: usize = 4;

fn lib_desc(d: &EFIMemoryDesc) -> EfiDesc {
    EfiDesc { ty: d.ty.0, phys_start: d.phys_start, virt_start: d.virt_start, page_count: d.page_count, att: d.att.bits() }
}

impl C18 {
    /// run the iteration protocol on `tag`; `base` = address of the tag
    fn drive(&self, ctx: &mut Ctx, tag: &EFIMemoryMapTag, base: usize, img: &[u8], version: u32, d: usize, l: usize, desc: &J) {
        let ok = efi_acceptable(version, d, l);
        let n = if ok { l / d } else { 0 };
        let mut viol = |ctx: &mut Ctx, sig: &str, msg: String| {
            ctx.violation(sig, J::obj(vec![("what", J::s(msg)), ("case", desc.clone())]));
        };
        let it = catch(|| tag.memory_areas());
        let mut it = match it {
            Out::Panic(site) => {
                if ok {
                    viol(ctx, &format!("rejected-acceptable-map@{}", site), "memory_areas() panicked".into());
                } else {
                    ctx.count("rejected@memory_areas");
                }
                return;
            }
            Out::Val(it) => it,
        };
        // len() before any next()
        let l0 = catch(|| it.len());
        if ok {
            if l0 != Out::Val(n) {
                viol(ctx, "len-initial", format!("len() = {:?}, expected {}", l0, n));
                return;
            }
        }
        let mut k = 0usize;
        loop {
            if k > l / 8 + 2 {
                viol(ctx, "too-many-items", "iterator exceeds the logical bound".into());
                return;
            }
            let r = catch(|| it.next());
            match r {
                Out::Panic(site) => {
                    if ok {
                        viol(ctx, &format!("panic-on-acceptable-map@{}", site), format!("next() #{} panicked", k));
                    } else if k > 0 {
                        viol(ctx, "item-before-rejection", format!("{} items were produced before the panic", k));
                    } else {
                        ctx.count("rejected@next");
                    }
                    return;
                }
                Out::Val(None) => {
                    if ok && k == n {
                        ctx.count("iterated-acceptable");
                        ctx.count_n("items", n as u64);
                        // exhausted: stays None, len stays 0
                        if catch(|| it.next().is_none() && it.len() == 0) != Out::Val(true) {
                            viol(ctx, "not-fused", "after None".into());
                        }
                        // M6b: every other way of consuming the iterator sees the same descriptors
                        crate::iterproto::check(ctx, "efi-mmap", &|| tag.memory_areas(), &|d: &EFIMemoryDesc| (d as *const _ as usize, lib_desc(d)), 4096, true);
                        crate::iterproto::check_clone(ctx, "efi-mmap", &|| tag.memory_areas(), &|d: &EFIMemoryDesc| (d as *const _ as usize, lib_desc(d)), 4096);
                    } else if ok {
                        viol(ctx, "count", format!("{} items, expected {}", k, n));
                    } else if k == 0 && l / d.max(1) == 0 && d != 0 {
                        // unacceptable combination that happens to hold no descriptor at all:
                        // nothing was produced, nothing was read; the property still demands a rejection
                        viol(ctx, "unacceptable-not-rejected", "empty iteration instead of a controlled panic".into());
                    } else {
                        viol(ctx, "unacceptable-not-rejected", format!("iteration ended normally after {} items", k));
                    }
                    return;
                }
                Out::Val(Some(item)) => {
                    let addr = item as *const _ as usize;
                    let off = addr as i64 - base as i64;
                    if !ok {
                        let over = off + 40 > 16 + l as i64;
                        let mis = addr % 8 != 0;
                        viol(
                            ctx,
                            if over { "item-overlaps-tag-end" } else if mis { "item-misaligned" } else { "item-from-unacceptable-map" },
                            format!("item #{} at tag+{} (40 bytes) produced for version {} desc_size {} map_len {}", k, off, version, d, l),
                        );
                        return;
                    }
                    let exp_off = 16 + k * d;
                    if off != exp_off as i64 {
                        viol(ctx, "item-address", format!("item #{} at tag+{}, expected tag+{}", k, off, exp_off));
                        return;
                    }
                    touch_val(item);
                    let got = lib_desc(item);
                    let exp = efi_decode(&img[exp_off..exp_off + 40]);
                    if got != exp {
                        viol(ctx, "item-fields", format!("item #{}: {:?} != {:?}", k, got, exp));
                        return;
                    }
                    k += 1;
                    // M6: remaining length after k next()
                    let lk = catch(|| it.len());
                    let hk = catch(|| it.size_hint());
                    if hk != Out::Val((n - k, Some(n - k))) {
                        viol(ctx, "size_hint-after-next", format!("after {} next(): size_hint() = {:?}, {} items still to come", k, hk, n - k));
                        return;
                    }
                    if lk != Out::Val(n - k) {
                        viol(ctx, "len-after-next", format!("after {} next(): len() = {:?}, {} items still to come", k, lk, n - k));
                        return;
                    }
                    // a clone continues from the same position
                    if k == 1 {
                        let mut c = it.clone();
                        let rest = catch(|| c.by_ref().count());
                        if rest != Out::Val(n - k) {
                            viol(ctx, "clone-diverges", format!("clone yields {:?} more, expected {}", rest, n - k));
                            return;
                        }
                    }
                }
            }
        }
    }

    fn one(&self, ctx: &mut Ctx, d: usize, version: u32, l: usize, embedded: bool) {
        let size = 16 + l;
        let mut img = ctx.rng.bytes(round8(size));
        put32(&mut img, 0, 17);
        put32(&mut img, 4, size as u32);
        put32(&mut img, 8, d as u32);
        put32(&mut img, 12, version);
        for b in &mut img[size..] {
            *b = 0xEE;
        }
        let desc = J::obj(vec![
            ("desc_size", J::u(d as u64)),
            ("desc_version", J::u(version as u64)),
            ("map_len", J::u(l as u64)),
            ("embedded", J::B(embedded)),
            ("acceptable", J::B(efi_acceptable(version, d, l))),
            ("tag_bytes", J::S(hex_trunc(&img, 72))),
        ]);
        ctx.eval();
        if embedded {
            let mut m = MbiBuf::new();
            m.push_raw(&img);
            m.push(0x4141_4141, &[0x42; 4]);
            let bytes = m.finish();
            let reg = Region::new(ctx.placement, &bytes);
            let bi = unsafe { BootInformation::load(reg.ptr().cast::<BootInformationHeader>()) }.expect("loads");
            match catch(|| bi.efi_memory_map_tag()) {
                Out::Val(Some(t)) => self.drive(ctx, t, reg.addr() + 8, &img, version, d, l, &desc),
                Out::Val(None) => ctx.violation("getter-none", desc.clone()),
                Out::Panic(s) => ctx.violation(&format!("getter-panic@{}", s), desc.clone()),
            }
        } else {
            let reg = Region::new(ctx.placement, &img);
            match catch(|| DynSizedStructure::<TagHeader>::ref_from_slice(reg.as_slice()).unwrap().cast::<EFIMemoryMapTag>()) {
                Out::Val(t) => self.drive(ctx, t, reg.addr(), &img, version, d, l, &desc),
                Out::Panic(s) => ctx.violation(&format!("cast-panic@{}", s), desc.clone()),
            }
        }
        ctx.nontrivial(mix2(mix2(d as u64, version as u64), (l as u64) << 1 | embedded as u64));
        if ctx.want_sample() && d == 48 && l == 96 {
            ctx.sample(desc);
        }
    }
}

impl Driver for C18 {
    fn ncases(&self, _ctx: &Ctx) -> u64 {
        (MAXD + 1) * VERSIONS as u64
    }
    fn run_case(&mut self, ctx: &mut Ctx, idx: u64) {
        let d = (idx / VERSIONS as u64) as usize;
        let version = match idx % VERSIONS as u64 {
            0 => 1,
            1 => 0,
            2 => 2,
            _ => ctx.rng.u32() | 4,
        };
        let mut ls = vec![];
        for k in 0..=4usize {
            let b = k * d;
            for delta in [0i64, -1, 1, -8, 8] {
                let l = b as i64 + delta;
                if l >= 0 {
                    ls.push(l as usize);
                }
            }
        }
        ls.sort();
        ls.dedup();
        for l in ls {
            self.one(ctx, d, version, l, false);
            self.one(ctx, d, version, l, true);
        }
    }
}
